"""Small executable reference model, written independently of the code under test.

No solver in here: MRFs are always taken from the trace.
"""

import itertools
import math

import numpy as np

EPS = np.finfo(float).eps


# -- stacking -----------------------------------------------------------------

def stack(data, w):
    data = np.asarray(data)
    t, n = data.shape
    rows = t - w + 1
    out = np.empty((rows, n * w), dtype=float)
    for i in range(rows):
        out[i] = np.concatenate([np.asarray(data[i + j], dtype=float) for j in range(w)])
    return out


def stack_multi(series, w):
    return np.vstack([stack(s, w) for s in series])


def margins(w):
    front = (w - 1) // 2
    return front, (w - 1) - front


# -- cluster statistics -----------------------------------------------------------

def cluster_stats(stacked, members, biased):
    x = stacked[list(members)]
    n = x.shape[0]
    mean = x.sum(axis=0) / n
    d = x - mean
    denom = n if biased else (n - 1)
    cov = (d.T @ d) / denom if denom > 0 else np.full((x.shape[1], x.shape[1]), np.nan)
    return mean, cov


# -- Gaussian log density --------------------------------------------------------

def logdet_spd(theta):
    sign, ld = np.linalg.slogdet(theta)
    return sign, ld


def cond_number(theta):
    try:
        ev = np.linalg.eigvalsh((theta + theta.T) / 2)
    except np.linalg.LinAlgError:
        return math.inf
    lo, hi = abs(ev).min(), abs(ev).max()
    if lo == 0 or not np.isfinite(lo) or not np.isfinite(hi):
        return math.inf
    return hi / lo


def log_density(x, mean, theta, logdet=None):
    """log N(x; mean, theta^-1) and the magnitude of the terms that were summed."""
    nw = theta.shape[0]
    if logdet is None:
        _, logdet = np.linalg.slogdet(theta)
    d = np.asarray(x, dtype=float) - mean
    q = float(d @ theta @ d)
    qmag = float(np.abs(d) @ np.abs(theta) @ np.abs(d))
    c = nw * math.log(2 * math.pi)
    val = 0.5 * (logdet - q - c)
    mag = 0.5 * (abs(logdet) + qmag + c)
    return val, mag


def log_density_table(stacked, means, thetas):
    t = stacked.shape[0]
    k = len(thetas)
    nw = stacked.shape[1]
    tab = np.empty((t, k))
    mag = np.empty((t, k))
    c = nw * math.log(2 * math.pi)
    for j in range(k):
        _, ld = np.linalg.slogdet(thetas[j])
        d = stacked - means[j]
        q = np.einsum("ti,ij,tj->t", d, thetas[j], d)
        qm = np.einsum("ti,ij,tj->t", np.abs(d), np.abs(thetas[j]), np.abs(d))
        tab[:, j] = 0.5 * (ld - q - c)
        mag[:, j] = 0.5 * (abs(ld) + qm + c)
    return tab, mag


# -- labelling ------------------------------------------------------------------

def beta_vector(beta, t):
    b = np.zeros(t) + np.asarray(beta, dtype=float)
    return b


def path_cost(cost, beta, labels, free_pairs=()):
    """Total cost of `labels`: assignment costs + beta[i] for every pair (i,i+1)
    with different labels (pairs in free_pairs cost nothing)."""
    t = cost.shape[0]
    b = beta_vector(beta, t)
    free = set(free_pairs)
    total = 0.0
    mag = 0.0
    for i in range(t):
        total += cost[i, labels[i]]
        mag += abs(cost[i, labels[i]])
        if i + 1 < t and labels[i] != labels[i + 1] and i not in free:
            total += b[i]
            mag += abs(b[i])
    return total, mag


def viterbi_min(cost, beta, free_pairs=()):
    """Minimum total cost over all K^T labellings, O(T K^2)."""
    t, k = cost.shape
    b = beta_vector(beta, t).copy()
    for i in free_pairs:
        b[i] = 0.0
    best = cost[0].astype(float).copy()
    back = np.zeros((t, k), dtype=int)
    for i in range(1, t):
        trans = best[:, None] + b[i - 1] * (1 - np.eye(k))
        back[i] = np.argmin(trans, axis=0)
        best = trans[back[i], np.arange(k)] + cost[i]
    end = int(np.argmin(best))
    path = [end]
    for i in range(t - 1, 0, -1):
        end = int(back[i][end])
        path.append(end)
    path.reverse()
    return float(np.min(best)), path


def brute_min(cost, beta, free_pairs=()):
    t, k = cost.shape
    best = math.inf
    for lab in itertools.product(range(k), repeat=t):
        c, _ = path_cost(cost, beta, lab, free_pairs)
        best = min(best, c)
    return best


def switch_cost(labels, beta, boundaries=()):
    """Sum of beta over consecutive pairs with different labels, excluding pairs that
    straddle a series boundary (pair index i means (i, i+1))."""
    t = len(labels)
    b = beta_vector(beta, t)
    skip = set(boundaries)
    s = 0.0
    for i in range(t - 1):
        if labels[i] != labels[i + 1] and i not in skip:
            s += b[i]
    return s


# -- metrics ----------------------------------------------------------------------

def bic(labels, thetas, emp_covs, threshold=2e-5):
    t = len(labels)
    mod = 0.0
    mag = 0.0
    params = []
    for th, s in zip(thetas, emp_covs):
        sign, ld = np.linalg.slogdet(th)
        tr = float(np.sum(th * s.T))
        mod += ld - tr
        mag += abs(ld) + float(np.sum(np.abs(th * s.T)))
        params.append(int(np.sum(np.abs(th) > threshold)))
    p = 0
    last = None
    for lab in labels:
        if lab != last:
            p += params[lab]
            last = lab
    val = p * math.log(t) - 2 * mod
    return val, p * math.log(t) + 2 * mag, p


def calinski_harabasz(stacked, labels, k, means=None, scalar_centre=False):
    t = stacked.shape[0]
    centre = np.mean(stacked) if scalar_centre else stacked.mean(axis=0)
    b = 0.0
    wd = 0.0
    labels = np.asarray(labels)
    for j in range(k):
        idx = np.nonzero(labels == j)[0]
        if len(idx) == 0:
            return None
        mu = stacked[idx].mean(axis=0) if means is None else means[j]
        b += len(idx) * float(np.sum((mu - centre) ** 2))
        wd += float(np.sum((stacked[idx] - mu) ** 2))
    if wd == 0 or k < 2:
        return None
    return (b / (k - 1)) / (wd / (t - k))


# -- repopulation predicates ----------------------------------------------------------

def repop_capacity(sizes, m):
    """How many refills the donors can serve: a cluster with s>=2m points can give
    floor(s/m)-1 times while keeping at least m."""
    return sum(s // m - 1 for s in sizes if s >= 2 * m)
