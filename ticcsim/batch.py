"""Parent side of a check: spawn worker interpreters, gather records, confirm findings
by replay in a fresh interpreter, apply the known-findings file, write evidence."""

import glob
import json
import os
import shutil
import subprocess
import sys
import time

from . import core
from .worker import dumps, get_prop

PY = "/venv/bin/python"
OUT_ROOT = os.environ.get("TICCSIM_OUT", core.VERIF_ROOT)   # redirected when testing mutants
WORK = os.path.join(OUT_ROOT, ".work")
KNOWN_FILE = os.path.join(core.VERIF_ROOT, "KNOWN_FINDINGS.txt")
NCPU = 16


def load_known():
    """Lines: `known: property=<id> key=<key> <text>`; `fixed:` lines are informational."""
    known = {}
    if not os.path.exists(KNOWN_FILE):
        return known
    for line in open(KNOWN_FILE):
        line = line.strip()
        if not line.startswith("known:"):
            continue
        parts = line.split()
        pid = key = None
        for p in parts[1:3]:
            if p.startswith("property="):
                pid = p.split("=", 1)[1]
            if p.startswith("key="):
                key = p.split("=", 1)[1]
        if pid and key:
            known[(pid, key)] = " ".join(parts[3:])
    return known


def spawn(prop_id, tier, base_seed, mode, count, nworkers, outdir, soft_deadline, hashseed="0",
          offset=0, numba_threads=None, seed_tag=None, group=""):
    procs = []
    for w in range(nworkers):
        out = os.path.join(outdir, f"{mode}{group}-{offset}-{w}.jsonl")
        cmd = [PY, "-m", "ticcsim.worker", "--prop", prop_id, "--tier", tier,
               "--base-seed", str(base_seed), "--stripe", f"{w}/{nworkers}", "--count", str(count),
               "--out", out, "--soft-deadline", str(soft_deadline), "--offset", str(offset),
               "--case-cap", str(900 if tier == "quick" else 1800)]
        if seed_tag:
            cmd += ["--seed-tag", seed_tag]
        env = core.mode_env(mode, hashseed=hashseed, numba_threads=numba_threads)
        env["TICCSIM_GROUP"] = group or mode
        log = open(out + ".log", "w")
        p = subprocess.Popen(cmd, env=env, cwd=core.VERIF_ROOT, stdout=log, stderr=subprocess.STDOUT)
        procs.append((p, out, log))
    return procs


def gather(procs, hard_deadline):
    records, harness, truncated = [], [], 0
    t_end = time.time() + hard_deadline
    for p, out, log in procs:
        try:
            rc = p.wait(timeout=max(1.0, t_end - time.time()))
        except subprocess.TimeoutExpired:
            p.kill()
            p.wait()
            rc = -9
            harness.append(f"worker {os.path.basename(out)} exceeded the wall cap and was killed")
        log.close()
        finished = False
        if os.path.exists(out):
            for line in open(out):
                try:
                    r = json.loads(line)
                except ValueError:
                    continue
                if r.get("finished"):
                    finished = True
                elif r.get("truncated"):
                    truncated += 1
                else:
                    records.append(r)
        if rc != 0 or not finished:
            tail = ""
            try:
                tail = open(out + ".log").read()[-600:]
            except OSError:
                pass
            harness.append(f"worker {os.path.basename(out)} rc={rc} finished={finished}: {tail}")
    return records, harness, truncated


def confirm(replay_path, mode):
    """Replay in a fresh interpreter; True iff the same oracle key fails again."""
    cmd = [PY, "-m", "ticcsim.worker", "--replay", replay_path]
    try:
        p = subprocess.run(cmd, env=core.mode_env(mode), cwd=core.VERIF_ROOT, capture_output=True,
                           text=True, timeout=900)
    except subprocess.TimeoutExpired:
        return None, "replay timed out"
    for line in p.stdout.splitlines():
        if line.startswith("REPLAY-RESULT "):
            res = json.loads(line[len("REPLAY-RESULT "):])
            return res["reproduced"], res
    return None, (p.stdout + p.stderr)[-800:]


def run_check(prop_id, tier, base_seed=None):
    t0 = time.time()
    if base_seed is None:
        base_seed = core.base_seed()
    prop = get_prop(prop_id)
    outdir = os.path.join(WORK, prop_id)
    shutil.rmtree(outdir, ignore_errors=True)
    os.makedirs(outdir, exist_ok=True)
    os.makedirs(os.path.join(OUT_ROOT, "replays"), exist_ok=True)
    os.makedirs(os.path.join(OUT_ROOT, "evidence"), exist_ok=True)
    plan = prop.plan(tier)
    soft = plan.pop("_soft_deadline", 100 if tier == "quick" else 1500)
    hard = plan.pop("_hard_deadline", soft + (1000 if tier == "quick" else 2000))
    procs = []
    total_workers = sum(min(NCPU, max(1, spec["workers"])) for spec in plan.values())
    for mode_key, spec in plan.items():
        mode = spec.get("mode", mode_key)
        nw = min(NCPU, max(1, spec["workers"]))
        procs += spawn(prop_id, tier, base_seed, mode, spec["count"], nw, outdir, soft,
                       hashseed=spec.get("hashseed", "0"), offset=spec.get("offset", 0),
                       numba_threads=spec.get("numba_threads"), seed_tag=spec.get("seed_tag"),
                       group=mode_key if mode_key != mode else "")
    if glob.glob(os.path.join(core.VERIF_ROOT, "corpus", f"{prop_id}-*.json")):
        out = os.path.join(outdir, "corpus.jsonl")
        log = open(out + ".log", "w")
        cp = subprocess.Popen([PY, "-m", "ticcsim.worker", "--prop", prop_id, "--corpus", "--out", out],
                              env=core.mode_env("nojit"), cwd=core.VERIF_ROOT, stdout=log, stderr=subprocess.STDOUT)
        procs.append((cp, out, log))
    records, harness, truncated = gather(procs, hard)
    wall_runs = time.time() - t0

    # cross-record oracle (e.g. the same seeds in several execution modes)
    cross = getattr(prop, "cross_check", None)
    if cross is not None:
        try:
            extra = cross(records)
        except Exception:
            import traceback
            harness.append("cross_check crashed: " + traceback.format_exc()[-1200:])
            extra = []
        if extra:
            records.append(dict(idx=-1, seed=int(base_seed), mode=extra[0].get("mode", "nojit"), findings=extra,
                                harness=[], sig=None, nontrivial=False))

    known = load_known()
    violations, known_hits = [], {}
    unconfirmed = []
    seen_keys = {}
    for r in records:
        for h in r.get("harness", []):
            harness.append(f"case idx={r.get('idx')} mode={r.get('mode')}: {h}")
        for f in r.get("findings", []):
            k = (f["property"], f["key"])
            seen_keys.setdefault(k, []).append((r, f))
    for (pid, key), items in sorted(seen_keys.items()):
        # confirm at most 3 instances per key by replay in a fresh interpreter
        confirmed = None
        for r, f in items[:3]:
            path = os.path.join(OUT_ROOT, "replays", f"{pid}-{key.replace(':', '_').replace('/', '_')}-{r['seed']}.json")
            fmode = f.get("mode") or r["mode"]
            rp = dict(property=pid, key=key, detail=f["detail"], mode=fmode, seed=r["seed"],
                      case=f["case"], extra=f.get("extra", {}))
            with open(path, "w") as fh:
                fh.write(dumps(rp))
            ok, info = confirm(path, fmode)
            if ok:
                confirmed = (path, f)
                break
            unconfirmed.append(dict(property=pid, key=key, replay=path, info=info))
            if ok is None:
                harness.append(f"replay of {path} failed to run: {info}")
        if confirmed is None:
            continue
        if (pid, key) in known:
            known_hits[(pid, key)] = (known[(pid, key)], len(items), confirmed[0])
        else:
            violations.append((pid, key, confirmed[0], confirmed[1]["detail"], len(items)))

    # evidence ------------------------------------------------------------
    def merge(field):
        tot = {}
        for r in records:
            for k, v in (r.get(field) or {}).items():
                tot[k] = tot.get(k, 0) + v
        return dict(sorted(tot.items()))
    sigs = {}
    for r in records:
        if r.get("nontrivial") and r.get("sig") is not None:
            sigs.setdefault(json.dumps(r["sig"], sort_keys=True), r)
    samples = [r["sample"] for r in list(sigs.values())[:4] if r.get("sample")]
    if not samples:
        samples = [r["sample"] for r in records[:3] if r.get("sample")]
    wall = time.time() - t0
    measures = {}
    for r in records:
        for name, items in (r.get("sets") or {}).items():
            measures.setdefault(name, set()).update(items)
    sim_runs = sum(r.get("sim_runs", 0) for r in records)
    modes = {}
    for r in records:
        modes[r.get("mode")] = modes.get(r.get("mode"), 0) + 1
    n_eval = sum(1 for r in records if r.get("idx", 0) >= 0)
    coverage = dict(
        evaluations=n_eval,
        distinct_nontrivial=len(sigs),
        rule=prop.rule,
        samples=samples or [dict(note="no sample recorded")],
        simulated_runs=sim_runs,
        simulated_runs_per_hour=int(sim_runs / max(wall_runs, 1e-9) * 3600),
        seeds_per_hour=int(len(records) / max(wall_runs, 1e-9) * 3600),
        logical_events=sum(r.get("events", 0) for r in records),
        simulated_time="not applicable: the code has no clocks, timers or timeouts; logical events are counted instead",
        distinct_reached={k: len(v) for k, v in sorted(measures.items())},
        distinct_reached_note="number of distinct values of each named measure over all simulated runs of this check "
                              "(e.g. pool event orders = order of start/finish events relative to submission)",
        faults_fired=merge("faults"),
        reach_probes=merge("probes"),
        skipped=merge("skips"),
        cases_per_mode=modes,
        truncated_workers=truncated,
        slowest_cases=[dict(idx=r.get("idx"), mode=r.get("mode"), wall_s=round(r.get("wall", 0.0), 1))
                       for r in sorted(records, key=lambda r: -r.get("wall", 0.0))[:3]],
        case_wall_s_total=round(sum(r.get("wall", 0.0) for r in records), 1),
        components=prop.components,
        known_findings_hit=[dict(property=p, key=k, text=t, count=n) for (p, k), (t, n, _) in sorted(known_hits.items())],
        unconfirmed_findings=unconfirmed[:10],
        harness_messages=harness[:10],
        workers=total_workers,
    )
    ev = dict(property_id=prop_id, tier=tier, seed=int(base_seed), level=prop.level, coverage=coverage,
              assumptions=list(prop.assumptions), wall_s=round(wall, 2), violations=len(violations))
    with open(os.path.join(OUT_ROOT, "evidence", f"{prop_id}.json"), "w") as fh:
        fh.write(json.dumps(json.loads(dumps(ev)), indent=1, sort_keys=True))

    for (pid, key), (text, n, path) in sorted(known_hits.items()):
        print(f"KNOWN-FINDING: property={pid} key={key} ({n} case(s), e.g. {os.path.relpath(path, core.VERIF_ROOT)}) {text}")
    for pid, key, path, detail, n in violations:
        print(f"VIOLATION property={pid} replay={path}")
        print(f"  oracle={key} cases={n} detail={detail}")
    for h in harness[:10]:
        print("HARNESS " + h.replace("\n", " | ")[:1500])
    print(f"{prop_id} {tier}: {n_eval} cases, {sim_runs} simulated runs, "
          f"{len(sigs)} distinct non-trivial, {len(violations)} violation(s), "
          f"{len(known_hits)} known finding(s), {wall:.1f}s")
    shutil.rmtree(outdir, ignore_errors=True)
    unfinished = sum(1 for r in records if r.get("unfinished"))
    if unfinished:
        print(f"UNFINISHED {unfinished} case(s) hit the per-case wall cap (reported in the evidence under skipped)")
    if violations:
        return 1
    if harness or unfinished > max(1, n_eval // 10):
        return 2
    return 0


def run_replay(path):
    with open(path) as f:
        rp = json.load(f)
    ok, info = confirm(path, rp.get("mode", "nojit"))
    if ok:
        print(f"VIOLATION property={rp['property']} replay={path}")
        print(f"  oracle={rp['key']} detail={info.get('detail')}")
        return 1
    if ok is None:
        print(f"HARNESS replay could not run: {info}")
        return 2
    print(f"replay of {path}: oracle {rp['key']} did not fail (keys failing now: {info.get('keys')})")
    return 0
