"""C13 - labels and cluster membership always describe one partition.

(1) Hypothesis state machine over the container API and the phase functions that keeps
every state ever produced and checks after every rule that no earlier state changed;
(2) the same invariant on every phase boundary of traced swarm runs."""

from .. import core, machines, oracles, trace, workload
from .base import Prop, Record, finding
from .traced import TracedProp


class C13(TracedProp):
    id = "C13"
    level = "exploration"
    profile = dict(lambda_forms=("float", "matrix_const", "matrix_sym"), beta_forms=("int", "float", "vector_const"),
                   min_cluster_sizes=(1, 2, 3, 5, 20), limits=(1, 2, 3, 5, 50), mmc_values=(0, 0, 1e-3, 2e-2, 0.1),
                   extreme_scale_p=0.1, scale_exp_range=(-2, 2))
    oracle = staticmethod(oracles.c13_run)

    @property
    def rule(self):
        return ("two kinds of case. (machine) one Hypothesis run of a rule-based state machine over real ModelState objects: "
                "rules = assign labels (fresh / equal / NumPy-integer / one cluster empty; only on states that share no "
                "cluster object with another live state), shallow copy, deep copy, repopulate, update statistics, optimise "
                "(direct-mode SimPool), relabel; the engine keeps every state produced (last 10) and after every rule checks: "
                "new state has K clusters whose sorted member lists partition the points and match the labels; no earlier "
                "state changed (labels, members, fitted statistics; the scoring alias may be reset to the MRF); a deep copy "
                "shares no mutable object (identity / memory walk incl. the argument bundle). (traced) one seeded swarm run: "
                "every state entering/leaving every phase is a partition, unchanged by the phase it was given to, and "
                "unchanged when looked at again at the end of the call. Non-trivial: >= 1 phase function produced a state "
                "(machine) / >= 1 round completed (traced). Distinct: op-sequence digest / history signature.")

    def plan(self, tier):
        if tier == "quick":
            return {"nojit": dict(count=512, workers=16), "_soft_deadline": 85}
        return {"nojit": dict(count=40000, workers=16), "_soft_deadline": 1500}

    def run_case(self, idx, seed, tier, mode):
        if idx % 4 != 0:
            rec = super().run_case(idx, seed, tier, mode)
            rec["sig"] = ["traced"] + list(rec["sig"] or [])
            return rec
        rec = Record()
        n = 20 if tier == "quick" else 60
        totals, v = machines.run_state_machine(seed % (2 ** 31), n)
        for k, val in totals.items():
            rec.probe("machine_" + k, val)
        rec["events"] = totals.get("ops", 0)
        rec["sig"] = ["machine", seed % 100000, totals.get("ops", 0)]
        rec["nontrivial"] = any(totals.get("state_from_" + h) for h in ("stats", "optimise", "relabel", "repop", "deep"))
        rec["sample"] = dict(kind="machine", hypothesis_seed=seed % (2 ** 31), stats=dict(totals))
        if v is not None:
            rec["findings"].append(finding("C13", v.key, v.detail, dict(kind="machine", ops=v.ops)))
            rec["sample"]["violating_ops"] = v.ops
        return rec

    def replay(self, case):
        if case.get("kind") == "machine":
            v = machines.replay_ops(machines.StateEngine, case["ops"])
            return [finding("C13", v.key, v.detail, case, extra=dict(event_digest=core.digest(case["ops"])))] if v else []
        return super().replay(case)


PROP = C13()
