"""C08 - cluster repopulation conserves points and never starves a donor.

Two sources of cases, same predicates: (1) a Hypothesis state machine over real model
states with adversarial size vectors and the member draw behind a seam; (2) every
repopulation event of traced swarm runs."""

from .. import core, machines, oracles, runner, trace, workload
from .base import Prop, Record, finding, freeze_decisions, safe
from .traced import TracedProp


class C08(TracedProp):
    id = "C08"
    level = "exploration"
    profile = dict(min_cluster_sizes=(1, 2, 3, 5, 8, 20, 40), beta_values=(0.5, 5, 20, 200, 1e5, 1e5),
                   limits=(2, 3, 5, 50), K=(2, 5), adversarial_donor_p=0.7)
    oracle = staticmethod(machines.c08_run)
    extra_rule = ""

    @property
    def rule(self):
        return ("two kinds of case. (machine) one Hypothesis run of a rule-based state machine over a real ModelState: rules "
                "= adversarial relabel (size vectors biased to 0,1,2,m-1,m,2m-1,2m,3m-1,3m,3m+2), set covariance spreads "
                "(with ties), change m, repopulate (member draw answered by the simulator: first-k, last-k reversed or any "
                "k-subset), repopulate again on the returned state; after each repopulation the predicates are checked: "
                "conservation, refill size exactly m, donors had >=2m and keep >=m, moves only donor->needy, bystanders "
                "untouched, donor order by decreasing spread (ties free), input unchanged, RuntimeError iff refill capacity "
                "sum(floor(size/m)-1) is insufficient. (traced) one seeded swarm run under SimPool whose every repopulation "
                "event is judged by the same predicates. Non-trivial: a repopulation moved points or raised. Distinct: by "
                "op-sequence digest (machine) / history signature (traced).")

    def plan(self, tier):
        if tier == "quick":
            return {"nojit": dict(count=640, workers=16), "_soft_deadline": 85}
        return {"nojit": dict(count=40000, workers=16), "_soft_deadline": 1500}

    def run_case(self, idx, seed, tier, mode):
        if idx % 4 != 0:
            rec = super().run_case(idx, seed, tier, mode)
            rec["sig"] = ["traced"] + list(rec["sig"] or [])
            rec["nontrivial"] = bool(rec["probes"].get("repop_event_moved_points") or
                                     rec["probes"].get("repop_event_raised"))
            return rec
        rec = Record()
        n = 60 if tier == "quick" else 150
        totals, v = machines.run_repop_machine(seed % (2 ** 31), n)
        for k, val in totals.items():
            rec.probe("machine_" + k, val)
        rec["events"] = totals.get("ops", 0)
        rec["sig"] = ["machine", seed % 100000, totals.get("ops", 0)]
        rec["nontrivial"] = bool(totals.get("repop_moved_points") or totals.get("repop_raised"))
        rec["sample"] = dict(kind="machine", hypothesis_seed=seed % (2 ** 31), examples=totals.get("examples"),
                             ops=totals.get("ops"), stats={k: v2 for k, v2 in totals.items()})
        if v is not None:
            rec["findings"].append(finding("C08", v.key, v.detail, dict(kind="machine", ops=v.ops)))
            rec["sample"]["violating_ops"] = v.ops
        return rec

    def replay(self, case):
        if case.get("kind") == "machine":
            v = machines.replay_ops(machines.RepopEngine, case["ops"])
            return [finding("C08", v.key, v.detail, case, extra=dict(event_digest=core.digest(case["ops"])))] if v else []
        return super().replay(case)


PROP = C08()
