"""C19 - caller-owned data is never modified.

Byte/shape/stride/dtype/flag snapshots of every caller-owned object around every
simulated call: successful calls, calls aborted by injected faults at enumerated
fault points, SimPool direct mode (worker-side code runs in the caller's address
space, so a write the real pool would hide behind pickling is visible), read-only /
Fortran-ordered / non-contiguous arrays, plus direct calls of the optimiser entry
point and the labelling step with the arrays that occurred in the run."""

import numpy as np

from .. import core, runner, trace, workload
from .base import Prop, Record, finding, freeze_decisions, safe
from .C20 import C20, EXCS

LAYOUTS = [None, None, "readonly", "F", "strided", "F_readonly"]


def array_state(a):
    return (a.shape, a.strides, str(a.dtype), bool(a.flags.writeable), a.tobytes())


class C19(Prop):
    id = "C19"
    level = "fault_enumeration"
    rule = ("one case = one sampled configuration with array-valued parameters (matrix lambda, vector beta, 1..5 series) in "
            "random memory layouts (C / Fortran / strided / read-only); the call runs under SimPool direct mode or pickling "
            "mode with snapshots of every caller-owned object before and after; then again aborted by injected faults at "
            "fault points enumerated from the clean run (tasks before/after, phases before/after), with the snapshot "
            "compared after the exception; a call that fails with a read-only/other layout is re-run with plain arrays to "
            "see whether the flag caused it; the optimiser entry point and the labelling step are called directly with "
            "read-only copies of the arrays recorded in the run. Non-trivial: at least one caller-owned array besides the "
            "data and at least one round completed. Distinct: by history signature + layouts + parameter forms.")
    assumptions = ["with the real pool worker-side writes are hidden by pickling; only direct mode shows them",
                   "a raising task is the fault model"]
    components = dict(real=Prop.components["real"],
                      stub=["process pool (SimPool, direct mode = user calling the optimiser in their own process)", "stdout"])

    def plan(self, tier):
        # a few JIT-compiled worker interpreters too: read-only / Fortran-ordered arrays reach the compiled kernels there
        if tier == "quick":
            return {"nojit": dict(count=221, workers=13), "jit": dict(count=24, workers=3, numba_threads=4),
                    "_soft_deadline": 90}
        return {"nojit": dict(count=12000, workers=13), "jit": dict(count=1500, workers=3, numba_threads=4),
                "_soft_deadline": 1500}

    def gen(self, seed):
        r = core.rng(seed, "C19", "gen")
        case = workload.gen_case("C19", seed, limits=(1, 2, 3), front_joint_p=0.45, max_series=5, T=(None, 90),
                                 lambda_forms=("matrix_const", "matrix_sym", "float"),
                                 beta_forms=("vector_const", "vector_rand", "int"),
                                 mmc_values=(0, 0, 1e-3, 1e-2), knob_p=0.1)
        case["data"]["layout"] = r.choice(["C", "readonly", "F", "strided", "readonly"])
        if r.random() < 0.25:
            case["data"]["dtype"] = r.choice(["float32", "int"])
        case["args"]["sparsity_weight"]["layout"] = r.choice(LAYOUTS)
        case["args"]["label_switching_cost"]["layout"] = r.choice(LAYOUTS[:3] + ["strided"])
        case["pool"]["direct"] = r.random() < 0.5
        if case["pool"]["direct"]:
            case["mp_switch"] = False
        return case

    @staticmethod
    def judge_call(out):
        f = []
        for which, what in (out.owned_changes or []):
            f.append((f"C19:caller_data_modified:{which.rstrip('0123456789')}",
                      f"caller-owned {which} changed ({what}) across a call that "
                      f"{'returned' if out.ok else 'raised ' + out.exc[0]}"))
        for p in out.sim.phases:
            if p["name"] == "viterbi" and "kwds_after" in p:
                for k, v in p["kwds"].items():
                    v2 = p["kwds_after"].get(k)
                    if isinstance(v, np.ndarray) and not (isinstance(v2, np.ndarray) and v.tobytes() == v2.tobytes()):
                        f.append(("C19:labelling_step_modifies_input", f"the labelling step changed its argument {k}"))
        for t in out.sim.tasks:
            if t.get("args_changed"):
                f.append(("C19:optimiser_modifies_input", f"the optimiser entry point changed its positional "
                                                          f"argument(s) {t['args_changed']}"))
                break
        return f

    def plain(self, case):
        c = workload.clone(case)
        c["data"]["layout"] = "C"
        c["args"]["sparsity_weight"].pop("layout", None)
        c["args"]["label_switching_cost"].pop("layout", None)
        return c

    def has_layout(self, case):
        return case["data"].get("layout", "C") != "C" or case["args"]["sparsity_weight"].get("layout") \
            or case["args"]["label_switching_cost"].get("layout")

    def direct_api(self, out, rec):
        """Call the optimiser entry point and the labelling step directly with read-only /
        Fortran-ordered copies of arrays that occurred in this run."""
        f = []
        ft = core.load_fast_ticc()
        import fast_ticc.admm as admm
        import fast_ticc.cluster_label_assignment as cla
        r = core.rng(out.case["seed"], "direct")
        tasks = [t for t in out.sim.tasks if t["theta"] is not None]
        if tasks:
            t = r.choice(tasks)
            s = np.array(t["args"][0], copy=True)
            lam = t["args"][1]
            if s.ndim == 2:
                asym = r.random() < 0.4 and s.shape[0] > 1
                if asym:
                    # a covariance that is symmetric only to rounding: one triangle went through float32
                    iu = np.triu_indices(s.shape[0], 1)
                    s[iu] = s[iu].astype(np.float32).astype(np.float64)
                    rec.probe("direct_optimiser_asymmetric_covariance")
                s = np.asfortranarray(s) if r.random() < 0.5 else s
                writable_before = None
                if r.random() < 0.5:
                    s.setflags(write=False)
                else:
                    writable_before = s.copy()
                if isinstance(lam, np.ndarray):
                    lam = np.array(lam, copy=True)
                    lam.setflags(write=False)
                before = array_state(s), (array_state(lam) if isinstance(lam, np.ndarray) else None)
                kw = dict(t["kwds"])
                step = r.choice(["recorded", "recorded", "rho", "callback"])
                if step == "rho":
                    kw["rho"] = r.choice([0.5, 2.0])
                elif step == "callback":
                    from .C18 import residual_balancing
                    kw["rho_update"] = residual_balancing
                    kw["max_iterations"] = 150
                try:
                    res = admm.admm_optimize_theta(s, lam, t["args"][2], t["args"][3], **kw)
                    rec.probe("direct_optimiser_calls")
                    rec.probe("direct_optimiser_step_" + step)
                    if writable_before is not None and not np.array_equal(s, writable_before, equal_nan=True):
                        f.append(("C19:optimiser_modifies_input", "optimiser entry point changed the (writable) covariance "
                                                                  "matrix it was given"))
                    if step == "recorded" and not asym and not np.array_equal(np.asarray(res.theta), t["theta"], equal_nan=True):
                        f.append(("C19:readonly_changes_result", "optimiser entry point gives a different result for a "
                                                                 "read-only copy of the same covariance"))
                except Exception as e:  # noqa: BLE001
                    f.append(("C19:readonly_fails", f"optimiser entry point fails on read-only inputs: {type(e).__name__}: {e}"))
                after = array_state(s), (array_state(lam) if isinstance(lam, np.ndarray) else None)
                if before != after:
                    f.append(("C19:optimiser_modifies_input", "optimiser entry point modified a read-only-flagged input"))
        vit = trace.completed(out, "viterbi")
        if vit:
            p = r.choice(vit)
            tab = p["kwds"].get("label_assignment_cost")
            beta = p["kwds"].get("label_switching_cost")
            if isinstance(tab, np.ndarray) and np.all(np.isfinite(tab)):
                tab = np.array(tab, copy=True)
                tab.setflags(write=False)
                if isinstance(beta, np.ndarray):
                    beta = np.array(beta, copy=True)
                    beta.setflags(write=False)
                before = array_state(tab), (array_state(beta) if isinstance(beta, np.ndarray) else None)
                try:
                    labels, cost = cla.assign_point_cluster_labels(label_assignment_cost=tab, label_switching_cost=beta)
                    rec.probe("direct_labelling_calls")
                    if [int(v) for v in labels] != [int(v) for v in p["ret"][0]] or float(cost) != float(p["ret"][1]):
                        f.append(("C19:readonly_changes_result", "labelling step gives a different result for read-only "
                                                                 "copies of the same inputs"))
                except Exception as e:  # noqa: BLE001
                    f.append(("C19:readonly_fails", f"labelling step fails on read-only inputs: {type(e).__name__}: {e}"))
                after = array_state(tab), (array_state(beta) if isinstance(beta, np.ndarray) else None)
                if before != after:
                    f.append(("C19:labelling_step_modifies_input", "labelling step modified its input arrays"))
                # a table with NaN costs (what a non-positive-definite MRF produces): the result is garbage and not
                # compared, but the caller's table must come back untouched, writable or read-only
                if tab.shape[1] >= 2:
                    bad = np.array(tab, copy=True)
                    bad[:, r.randrange(tab.shape[1])] = np.nan
                    ro = r.random() < 0.5
                    if ro:
                        bad.setflags(write=False)
                    snap = bad.copy()
                    try:
                        cla.assign_point_cluster_labels(label_assignment_cost=bad, label_switching_cost=beta)
                        rec.probe("direct_labelling_calls_nan_table")
                    except Exception as e:  # noqa: BLE001
                        if ro and "read-only" in str(e):
                            f.append(("C19:readonly_fails", f"labelling step fails on a read-only cost table: {type(e).__name__}: {e}"))
                    if not np.array_equal(bad, snap, equal_nan=True):
                        f.append(("C19:labelling_step_modifies_input", "labelling step changed entries of the cost table it was given"))
        return f

    def run_case(self, idx, seed, tier, mode):
        rec = Record()
        r = core.rng(seed, "C19", "plan")
        import time as _t
        case = self.gen(seed)
        _t0 = _t.time()
        out = runner.execute(case, owned=True)
        expensive = tier == "quick" and (_t.time() - _t0) > 1.5     # slowly converging solver: fewer re-executions
        if expensive:
            rec.probe("expensive_case_fewer_reexecutions")
        rec.absorb(out)
        found = [(k, d, dict(kind="call", case=freeze_decisions(case, out))) for k, d in self.judge_call(out)]
        if case["pool"]["direct"]:
            rec.probe("direct_mode_runs")
        for name in ("data", "sparsity_weight", "label_switching_cost"):
            lay = case["data"].get("layout") if name == "data" else case["args"][name].get("layout")
            if lay and lay != "C":
                rec.probe(f"layout_{name}_{lay}")
        if not out.ok and self.has_layout(case):
            pl = self.plain(case)
            po = runner.execute(pl, record=False)
            rec.absorb(po)
            if po.ok:
                found.append(("C19:readonly_or_layout_fails",
                              f"the call raised {out.exc[0]}({out.exc[1][:120]!r}) with layouts data={case['data'].get('layout')} "
                              f"lambda={case['args']['sparsity_weight'].get('layout')} beta="
                              f"{case['args']['label_switching_cost'].get('layout')} but completes with plain writable "
                              f"C-ordered copies", dict(kind="layout", case=case)))
        if out.ok:
            for k, d in safe(lambda: self.direct_api(out, rec), rec, "direct api") or []:
                found.append((k, d, dict(kind="direct", case=freeze_decisions(case, out))))
            # calls aborted by injected faults at enumerated points of this run
            pts = C20.fault_points(None, out, r)
            pts = [p for p in pts if p.get("when") != "unpicklable"]
            npts = (1 if expensive else 3) if tier == "quick" else 8
            for pt in r.sample(pts, min(npts, len(pts))):
                c = workload.clone(case)
                c["faults"] = [dict(pt)]
                fo = runner.execute(c, owned=True)
                rec.absorb(fo)
                if not fo.sim.fault_fired:
                    rec.probe("fault_point_not_reached")
                    continue
                rec.probe("aborted_calls_checked")
                for k, d in self.judge_call(fo):
                    found.append((k, f"[fault {pt}] {d}", dict(kind="call", case=freeze_decisions(c, fo))))
            # real pool: parent-side writes are still visible
            if mode != "jit" and r.random() < (0.12 if tier == "quick" else 0.06):   # no fork after OpenMP threads started
                c = workload.clone(case)
                c["pool"] = dict(kind="real", sched_seed=0, bias="fifo", eager_pickle_p=1.0, cold_cache=False,
                                 choices=[], direct=False)
                c["mp_switch"] = True
                c["args"]["num_processors"] = r.randint(1, 3)
                ro = runner.execute(c, record=False, owned=True)
                rec.probe("real_pool_runs")
                rec["sim_runs"] += 1
                for k, d in self.judge_call(ro):
                    found.append((k, "[real pool] " + d, dict(kind="call", case=c)))
        # later calls in the same process must not reach back into the objects of this call
        later = []
        for j in range(1 if expensive else 2):
            c2 = workload.clone(case)
            c2["np_seed"] = (case["np_seed"] + 1 + j) % (2 ** 32)
            if j == 0:
                # same shapes (same number of points), other values and forms
                c2["args"]["label_switching_cost"] = dict(form="float", value=r.choice([0.0, 5.0, 50.0]), seed=0)
                c2["args"]["sparsity_weight"] = dict(form="float", value=r.choice([0.05, 0.5]), seed=0)
            else:
                c2["args"]["label_switching_cost"] = dict(case["args"]["label_switching_cost"], value=7.0, layout=None)
                c2["args"]["sparsity_weight"] = dict(case["args"]["sparsity_weight"], value=0.3, layout=None)
            c2["data"]["layout"] = "C"
            o2 = runner.execute(c2, owned=True)
            rec.absorb(o2)
            later.append(c2)
            rec.probe("later_calls")
            ch = runner.owned_recheck(out)
            if ch:
                which, what = ch[0]
                found.append((f"C19:caller_data_modified_later:{which.rstrip('0123456789')}",
                              f"caller-owned {which} of an earlier call changed ({what}) during a later call in the same "
                              f"process", dict(kind="sequence", case=freeze_decisions(case, out), later=list(later))))
                break
            for k, d in self.judge_call(o2):
                found.append((k, "[later call] " + d, dict(kind="call", case=freeze_decisions(c2, o2))))
        seen = set()
        for k, d, rp in found:
            if k in seen:
                continue
            seen.add(k)
            rec["findings"].append(finding("C19", k, d, rp, extra=dict(event_digest=out.event_digest)))
        a = case["args"]
        arrays = sum(1 for s in (a["sparsity_weight"], a["label_switching_cost"])
                     if s["form"].startswith(("matrix", "vector")))
        rec["sig"] = (trace.history_signature(out) if out.ok else ["raised", out.exc[0]]) + \
                     [case["data"].get("layout"), a["sparsity_weight"]["form"], a["sparsity_weight"].get("layout"),
                      a["label_switching_cost"]["form"], a["label_switching_cost"].get("layout"), case["pool"]["direct"]]
        rec["nontrivial"] = out.ok and arrays >= 1 and trace.rounds(out) >= 1
        rec["sample"] = dict(case=workload.brief(case), layouts=rec["sig"][-6:], ok=out.ok, exc=out.exc)
        return rec

    def replay(self, rp):
        case = rp["case"]
        f = []
        if rp["kind"] == "layout":
            out = runner.execute(case, owned=True)
            po = runner.execute(self.plain(case), record=False)
            if not out.ok and po.ok:
                f.append(("C19:readonly_or_layout_fails", f"raises {out.exc[0]} with the layouts, completes with plain copies"))
        elif rp["kind"] == "sequence":
            out = runner.execute(case, owned=True)
            for c2 in rp["later"]:
                runner.execute(c2, owned=True)
                ch = runner.owned_recheck(out)
                if ch:
                    which, what = ch[0]
                    f.append((f"C19:caller_data_modified_later:{which.rstrip('0123456789')}",
                              f"caller-owned {which} of an earlier call changed ({what}) during a later call"))
                    break
        elif rp["kind"] == "direct":
            out = runner.execute(case, owned=True)
            f = self.direct_api(out, Record()) if out.ok else []
        else:
            out = runner.execute(case, owned=True)
            f = self.judge_call(out)
        return [finding("C19", k, d, rp, extra=dict(event_digest=out.event_digest)) for k, d in f]


PROP = C19()
