"""The properties decided by a post-run oracle over one traced simulated run."""

from .. import core, oracles, trace, workload
from .traced import TracedProp

SCALAR_BETA = ("int", "float", "np.float64")
ANY_BETA = ("int", "float", "np.float64", "vector_const", "vector_rand")
ANY_LAMBDA = ("float", "float", "np.float64", "matrix_const", "matrix_sym")


def det_shard(case, r, sign=+1, wide=False):
    """A run whose determinants leave the range of a double: N=4, W=10 (NW=40) with sensor
    variance 1e8 (log det about -740..-1400), or - wide - N=6, W=10 (NW=60) with sensor
    variance 1e12 (log det about -1650: even sqrt(det) underflows)."""
    n = 6 if wide else 4
    case["data"]["N"] = n
    case["args"]["window_size"] = 10
    case["args"]["num_clusters"] = 2
    case["front"] = "single"
    case["data"]["lengths"] = [r.randint(300, 340) if wide else r.randint(250, 280)]
    case["data"]["regimes"] = 2
    case["data"]["sep"] = 3.0
    case["data"]["scale_exp"] = [(6.0 if wide else 4.0) * sign] * n
    case["data"].pop("layout", None)
    for k in ("const_sensor", "dup_rows", "dtype", "shift"):
        case["data"].pop(k, None)
    case["args"]["iteration_limit"] = 1 if wide else 2
    case["args"]["min_cluster_size"] = 20
    case["args"]["sparsity_weight"] = dict(form="float", value=0.0, seed=0)
    case["args"]["label_switching_cost"] = dict(form="int", value=5, seed=0)
    case["args"]["min_meaningful_covariance"] = dict(form="float", value=0)
    return case


class C03(TracedProp):
    id = "C03"
    profile = dict(mmc_values=(0, 0, 0, 0, 1e-6, 1e-2), extreme_scale_p=0.5, scale_exp_range=(-6, 6), mixed_units_p=0.08,
                   knob_p=0.3, beta_forms=ANY_BETA, lambda_forms=ANY_LAMBDA, big_nw_p=0.1)
    oracle = staticmethod(oracles.c03)
    counts = dict(quick=640, thorough=40000)
    extra_rule = ("C03: every MRF after every optimise phase and in the result must be finite, symmetric, Cholesky-"
                  "factorable with a finite stored log-determinant; every float of the result finite; with a floor "
                  "eps>0 the surviving entries are bit-equal to the optimiser's raw output captured at the pool seam. "
                  "Workload includes the scale shard (per-sensor scale 10^u, u in [-6,6]), constant sensors, duplicated "
                  "rows, clusters smaller than NW. Non-trivial: at least one optimise phase completed.")

    def tweak(self, case, r, tier):
        u = r.random()
        if u < (0.02 if tier == "quick" else 0.01):
            det_shard(case, r, r.choice([+1, +1, -1]))
        elif u < (0.045 if tier == "quick" else 0.015):
            det_shard(case, r, +1, wide=True)
        return case

    def is_nontrivial(self, out):
        return len(trace.completed(out, "optimise")) >= 1


class C04(TracedProp):
    id = "C04"
    profile = dict(W=(1, 6), front_joint_p=0.55, max_series=6, T=(None, 90), limits=(1, 2, 3), max_nw=10)
    oracle = staticmethod(lambda out, rec=None: oracles.c04(out))
    counts = dict(quick=800, thorough=40000)
    extra_rule = ("C04: label count per series, exact -1 margins floor((W-1)/2) / (W-1)-floor((W-1)/2), integer labels "
                  "in [0,K), K MRFs of NWxNW, echoes of K and W, and per-series interior labels equal to the matching "
                  "slice of the last labelling the loop produced. Non-trivial: the run completed.")


class C05(TracedProp):
    id = "C05"
    profile = dict(extreme_scale_p=0.4, scale_exp_range=(-3.2, 3.2), mixed_units_p=0.12, big_nw_p=0.12, N=(1, 4), W=(1, 6),
                   lambda_forms=ANY_LAMBDA, mmc_values=(0, 0, 0, 1e-3, 1e-2, 0.05, 0.12, 0.3))
    oracle = staticmethod(oracles.c05)
    counts = dict(quick=560, thorough=30000)
    extra_rule = ("C05: every likelihood table of every round and every per-point / aggregate likelihood of the result is "
                  "compared with an independent Gaussian log-density (slogdet based) under the recorded model of that "
                  "round, tolerance derived from term magnitudes and condition number; includes a determinant shard "
                  "(NW=27..30, sensor variance 1e12 or 1e-12) where the value must still be finite.")

    def tweak(self, case, r, tier):
        u = r.random()
        if u < (0.03 if tier == "quick" else 0.015):
            det_shard(case, r, r.choice([+1, +1, -1]))
        elif u < (0.06 if tier == "quick" else 0.02):
            det_shard(case, r, +1, wide=True)
        return case

    def plan(self, tier):
        # the property names the JIT-compiled and the interpreted kernels: both kinds of worker interpreter
        p = super().plan(tier)
        n = p["nojit"]["count"]
        p["nojit"]["workers"] = 12
        p["jit"] = dict(count=n // 4, workers=4, numba_threads=4)
        return p

    def is_nontrivial(self, out):
        return len(trace.completed(out, "ll_table")) >= 1


class C06(TracedProp):
    id = "C06"
    profile = dict(limits=(1, 1, 2, 3, 50), beta_values=(0, 0.5, 2, 5, 20, 200, 1e5, 1e5), beta_forms=ANY_BETA,
                   front_joint_p=0.35, mmc_values=(0, 0, 0, 1e-3, 1e-2, 0.05, 0.12, 0.3))
    oracle = staticmethod(oracles.c06)
    counts = dict(quick=720, thorough=40000)
    extra_rule = ("C06: cost = -overall log-likelihood + switching cost over within-series pairs; list length = labelled "
                  "points; sum/mean/median of exactly the list; per-cluster mean/median over exactly that cluster's points "
                  "(0 if empty). Workload biased to endings with empty clusters (limit 1, collapsing beta).")


class C07(TracedProp):
    id = "C07"
    profile = dict(front_joint_p=1.0, max_series=6, beta_forms=SCALAR_BETA, T=(None, 140),
                   beta_values=(0, 0.5, 2, 5, 20, 200))
    oracle = staticmethod(oracles.c07)
    counts = dict(quick=640, thorough=30000)
    extra_rule = ("C07: joint runs of 1..6 series of unequal length: stacked array at the main-loop seam equals the "
                  "concatenation of reference stackings; the switching cost observed at the labelling step has zeros on "
                  "exactly the boundary pairs; the mask helper's zeros are on the boundary pairs; the returned labelling is "
                  "optimal for, and the reported cost equals, boundary-free pricing of the recorded last cost table.")

    def is_nontrivial(self, out):
        return out.ok and len(out.case["data"]["lengths"]) > 1

    def tweak(self, case, r, tier):
        if r.random() < 0.2:
            case["data"]["lengths"] = case["data"]["lengths"][:1]
        return case

    def judge(self, out, rec):
        found = super().judge(out, rec)
        # the mask helper on a few other tuples of stacked lengths (incl. one series, series of one window)
        import numpy as np
        import fast_ticc.data_preparation as dp
        r = core.rng(out.case["seed"], "C07", "helper")
        w_ = out.case["args"]["window_size"]
        run_lens = [length - w_ + 1 for length in out.case["data"]["lengths"]]
        for rep in range(5):
            # three fresh tuples, then the run's own stacked lengths, then the last tuple AGAIN: a helper that keeps
            # state between calls (memoisation) must still give the same answer
            if rep < 3:
                lens = [r.choice([1, 1, 2, 3, r.randint(1, 40)]) for _ in range(r.randint(1, 6))]
            elif rep == 3:
                lens = run_lens
            try:
                tpl = np.asarray(dp.label_switching_cost_template(list(lens) if r.random() < 0.5 else tuple(lens)))
            except Exception as e:  # noqa: BLE001
                found.append(("C07:mask_helper_raises", f"mask helper raises {type(e).__name__} for stacked lengths {lens}: {e}"))
                break
            want = np.ones(sum(lens))
            ends = np.cumsum(lens)[:-1]
            want[[int(e) - 1 for e in ends]] = 0
            rec.probe("mask_helper_direct_calls")
            if tpl.shape != want.shape or not np.array_equal(tpl, want):
                found.append(("C07:mask_position", f"mask for stacked lengths {lens} has zeros at "
                                                   f"{[int(i) for i in np.nonzero(tpl == 0)[0]]}, boundary pairs are "
                                                   f"{[int(e) - 1 for e in ends]}"))
                break
        if len(out.case["data"]["lengths"]) == 1:
            # joint labelling of a single series must give the same result as the single-series front end
            from .. import runner
            import numpy as np
            c = workload.clone(out.case)
            c["front"] = "single"
            c["pool"]["choices"] = None
            so = runner.execute(c, record=False)
            rec.probe("joint_of_one_vs_single_pairs")
            if so.ok != out.ok:
                found.append(("C07:joint_of_one_differs",
                              f"single series: ticc_labels {'completes' if so.ok else 'raises ' + so.exc[0]} but "
                              f"ticc_joint_labels {'completes' if out.ok else 'raises ' + out.exc[0] + ': ' + out.exc[1][:120]}"))
            elif so.ok:
                fa, fb = dict(so.fields), dict(out.fields)
                la, lb = fa.pop("point_labels"), fb.pop("point_labels")
                from ..core import digest
                if lb != [la] or digest(fa) != digest(fb):
                    diff = [k for k in fa if digest(fa[k]) != digest(fb.get(k))]
                    found.append(("C07:joint_of_one_differs", f"joint labelling of a single series differs from the "
                                                              f"single-series front end in {diff or ['point_labels']}"))
        return found


class C09(TracedProp):
    id = "C09"
    profile = dict(beta_forms=ANY_BETA, limits=(1, 2, 3, 5, 50), min_cluster_sizes=(1, 2, 3, 5, 20, 40))
    oracle = staticmethod(oracles.c09)
    counts = dict(quick=640, thorough=40000)
    extra_rule = ("C09: 1 <= rounds <= limit; per-round phase order and hand-over of states; early stop only on two "
                  "identical consecutive labellings; returned labels/cost/MRFs are the last round's; every round's "
                  "labelling is a minimum-cost labelling of that round's recorded cost table (reference Viterbi, brute "
                  "force on tiny tables); labels change between rounds only through repopulation of a cluster with <2 points.")


class C12(TracedProp):
    id = "C12"
    profile = dict(lambda_forms=ANY_LAMBDA, mmc_values=(0, 0, 1e-3), min_cluster_sizes=(2, 3, 5, 20),
                   beta_values=(0, 0.5, 2, 5, 20, 200, 1e5))
    oracle = staticmethod(oracles.c12)
    counts = dict(quick=640, thorough=40000)
    extra_rule = ("C12: after each statistics phase the mean/covariance of every cluster is compared with explicit-sum "
                  "reference statistics of exactly the windows labelled k at that moment (requested estimator); at the pool "
                  "seam every task covariance is bit-equal to its cluster's, lambda/W/N arrive unchanged, and each cluster "
                  "stores the result of its own task.")


def _c12_tweak(self, case, r, tier):
    if r.random() < 0.12:
        # a sensor riding on a large constant offset (absolute pressure, epoch seconds): the statistics must still be those
        # of the windows (a one-pass E[xx']-E[x]E[x]' loses eps*offset^2)
        n = case["data"]["N"]
        shift = [0.0] * n
        shift[r.randrange(n)] = float(r.choice([1e4, 1e5, 1e6, -1e6, 1e7]))
        case["data"]["shift"] = shift
    return case


C12.tweak = _c12_tweak


class C16(TracedProp):
    id = "C16"
    profile = dict(extreme_scale_p=0.3, scale_exp_range=(-4, 4), mixed_units_p=0.08, beta_values=(0, 0, 0.5, 2, 5, 20, 200, 1e5),
                   limits=(1, 2, 3, 5, 50), mmc_values=(0, 0, 0, 1e-3, 1e-2, 0.05, 0.15))
    oracle = staticmethod(oracles.c16)
    counts = dict(quick=720, thorough=40000)
    extra_rule = ("C16: BIC recomputed from the recorded final model: P*ln(T) - 2*sum(logdet - trace), P summed over "
                  "maximal label runs with threshold 2e-5; must be finite whenever the MRFs are SPD (determinant shard "
                  "included).")

    def tweak(self, case, r, tier):
        u = r.random()
        if u < (0.03 if tier == "quick" else 0.015):
            det_shard(case, r, r.choice([+1, +1, -1]))
        elif u < (0.055 if tier == "quick" else 0.02):
            det_shard(case, r, +1, wide=True)
        return case


class C17(TracedProp):
    id = "C17"
    profile = dict(limits=(5, 50, 50), min_cluster_sizes=(2, 3, 5), knob_p=0.3)
    oracle = staticmethod(oracles.c17)
    counts = dict(quick=720, thorough=40000)
    extra_rule = ("C17: for converged runs with all clusters non-empty the index is recomputed from data and labels with "
                  "the column-wise centroid; the known scalar-centre deviation is an executable model - only an exact match "
                  "with it is attributed to the known finding. Non-trivial: converged, all clusters non-empty.")

    def tweak(self, case, r, tier):
        if r.random() < 0.12:
            # "does not change when a constant is added to any one sensor": large constants too
            n = case["data"]["N"]
            shift = [0.0] * n
            shift[r.randrange(n)] = float(r.choice([1e3, 1e4, 1e5, 1e6, -1e6, 1e7]))
            case["data"]["shift"] = shift
        if r.random() < 0.12:
            # very clean signals: regimes far apart, residual noise 1e-7..1e-5, one row per window so that no window
            # straddles a regime change -> the within-cluster dispersion is tiny (1e-12..1e-7) but not zero
            d = case["data"]
            d["noise"] = float(r.choice([1e-7, 1e-6, 1e-6, 1e-5]))
            d["sep"] = float(r.choice([3.0, 6.0]))
            d["regimes"] = max(2, d["regimes"])
            d.pop("dup_rows", None)
            d.pop("dtype", None)
            if r.random() < 0.8:
                case["args"]["window_size"] = 1
            case["args"]["num_clusters"] = min(case["args"]["num_clusters"], d["regimes"])
        return case

    def is_nontrivial(self, out):
        if not out.ok or trace.exit_reason(out) not in ("converged", "converged_at_limit"):
            return False
        fs = trace.final_state(out)
        return fs is not None and min(trace.sizes(fs)) > 0


REGISTRY = {c.id: c() for c in (C03, C04, C05, C06, C07, C09, C12, C16, C17)}
