"""C14 - results are reproducible and independent of process scheduling.

The same seeded call is executed under many simulated schedules, worker counts,
pickling moments, cache temperatures and process histories and compared bit for bit
with a reference execution (FIFO schedule, one worker, fresh history)."""

import copy

from .. import core, runner, trace, workload
from .base import Prop, Record, finding, freeze_decisions, safe


def fingerprint(out):
    if out.ok:
        return ("ok", out.result_digest)
    return ("raise", out.exc[0], out.exc[1][:200])


class C14(Prop):
    id = "C14"
    level = "exploration"
    rule = ("one case = one seeded front-end call (swarm configuration) executed once as reference "
            "(FIFO, 1 worker, fresh history) and then under S simulated schedules x worker counts x "
            "pickling moments x cache temperatures, under preceding process histories, and (some cases) "
            "under the real fork pool with seeded per-task delays; all results compared bitwise. "
            "Non-trivial: the reference run completed at least one round and at least one variant finished "
            "tasks out of submission order or ran after a non-empty history. Distinct: by (rounds, "
            "repopulations, exit reason, empty pattern, K, W, N, front end, #series, #distinct finish orders).")
    assumptions = ["BLAS pinned to one thread (replay exactness); independence of BLAS thread count is assumed",
                   "real-pool conformance runs are observations of OS scheduling, counted separately",
                   "worker death (as opposed to a raising task) is outside the fault model"]

    def plan(self, tier):
        if tier == "quick":
            return {"nojit": dict(count=112, workers=16), "_soft_deadline": 90}
        return {"nojit": dict(count=6000, workers=16), "_soft_deadline": 1500}

    # ------------------------------------------------------------------
    def variants(self, case, seed, tier, ref_out):
        r = core.rng(seed, "C14", "variants")
        vs = []
        nsched = 5 if tier == "quick" else 8
        for s in range(nsched):
            c = workload.clone(case)
            c["mp_switch"] = True
            c["args"]["num_processors"] = r.randint(1, 8)
            c["pool"] = dict(kind="sim", sched_seed=core.H(seed, "sched", s),
                             bias=r.choice(["fifo", "lifo", "uniform", "uniform"]),
                             eager_pickle_p=r.choice([0.0, 0.5, 1.0]),
                             cold_cache=r.random() < 0.5, choices=None, direct=False)
            vs.append(("sched", c))
        # worker count x switch
        for p, sw in [(1, True), (8, False), (r.randint(2, 8), True)]:
            c = workload.clone(case)
            c["mp_switch"] = sw
            c["args"]["num_processors"] = p
            c["pool"]["sched_seed"] = core.H(seed, "np", p, sw)
            c["pool"]["bias"] = "uniform"
            vs.append(("nproc", c))
        # hyper-parameter sweep: the same data and seeds were fitted just before with other settings
        c = workload.clone(case)
        hist = []
        for j in range(r.randint(1, 2)):
            h = workload.clone(case)
            h["history"] = []
            what = r.choice(["lambda", "biased", "beta", "lambda"])
            if what == "lambda":
                h["args"]["sparsity_weight"] = dict(form="float", value=r.choice([0.02, 0.6, 3.0]), seed=0)
            elif what == "biased":
                h["args"]["biased_covariance"] = not h["args"]["biased_covariance"]
            else:
                h["args"]["label_switching_cost"] = dict(form="float", value=r.choice([0.0, 1.0, 50.0]), seed=0)
            hist.append(h)
        c["history"] = hist
        c["pool"]["sched_seed"] = core.H(seed, "sweep")
        vs.append(("history", c))
        # preceding process history
        for hno in range(2 if tier == "quick" else 3):
            c = workload.clone(case)
            hist = []
            for j in range(r.randint(1, 3)):
                hseed = core.H(seed, "hist", hno, j)
                if r.random() < 0.4:
                    # same shape (N, W) as the call under test: shares memoised entries
                    h = workload.gen_case("C14h", hseed, N=(case["data"]["N"],) * 2,
                                          W=(case["args"]["window_size"],) * 2,
                                          lambda_forms=("float", "matrix_const", "matrix_sym"))
                else:
                    h = workload.gen_case("C14h", hseed, lambda_forms=("float", "matrix_const", "matrix_sym"),
                                          beta_forms=("int", "float", "vector_const"))
                h["args"]["iteration_limit"] = min(h["args"]["iteration_limit"], 3)
                if r.random() < 0.3:
                    h["args"]["min_cluster_size"] = 500   # a failing earlier call (no donor) when it repopulates
                hist.append(h)
            c["history"] = hist
            c["mp_switch"] = r.random() < 0.5
            c["pool"]["sched_seed"] = core.H(seed, "histsched", hno)
            c["pool"]["cold_cache"] = False
            vs.append(("history", c))
        return vs

    def run_case(self, idx, seed, tier, mode):
        rec = Record()
        case = workload.gen_case("C14", seed, lambda_forms=("float", "float", "matrix_const", "matrix_sym"),
                                 beta_forms=("int", "float", "vector_const", "vector_rand"))
        # reference: FIFO, one worker, warm caches, fresh history
        case["mp_switch"] = False
        case["pool"] = dict(kind="sim", sched_seed=0, bias="fifo", eager_pickle_p=1.0, cold_cache=False,
                            choices=[], direct=False)
        ref = runner.execute(case)
        rec.absorb(ref)
        fp0 = fingerprint(ref)
        rec["sample"] = dict(case=workload.brief(case), reference=list(fp0),
                             rounds=trace.rounds(ref), exit=trace.exit_reason(ref) if ref.ok else None)
        # plain repetition (also the determinism self-test of the harness)
        rep = runner.execute(case)
        rec.absorb(rep)
        if fingerprint(rep) != fp0 or rep.event_digest != ref.event_digest:
            rec["findings"].append(finding("C14", "C14:repeat", f"two identical executions differ: {fp0} vs {fingerprint(rep)}",
                                           dict(ref=case, variant=case, what="repeat")))
        orders = set()
        nontrivial = False
        for what, c in self.variants(case, seed, tier, ref):
            out = runner.execute(c, record=False)
            rec.absorb(out)
            orders.add(trace.finish_signature(out))
            if trace.out_of_order(out):
                rec.probe("finish_out_of_order")
                nontrivial = True
            if what == "history":
                rec.probe("history_len_%d" % len(c["history"]))
                if any(not ok for ok, _ in out.history_outcomes):
                    rec.probe("history_with_failed_call")
                nontrivial = True
            fp = fingerprint(out)
            if fp != fp0:
                rc = freeze_decisions(c, out)
                rec["findings"].append(finding(
                    "C14", f"C14:{what}", f"{what} variant differs from reference: {fp0} vs {fp}",
                    dict(ref=case, variant=rc, what=what), extra=dict(event_digest=out.event_digest)))
                break
        # real pool conformance (observation, not simulation)
        r = core.rng(seed, "C14", "real")
        if ref.ok and r.random() < (0.2 if tier == "quick" else 0.1):
            c = workload.clone(case)
            c["mp_switch"] = True
            c["args"]["num_processors"] = r.randint(1, 4)
            digs = [t["cov_digest"] for t in ref.sim.tasks]
            c["pool"] = dict(kind="real", sched_seed=0, bias="fifo", eager_pickle_p=1.0, cold_cache=False,
                             choices=[], direct=False,
                             delays={d: r.choice([0, 0, 0.005, 0.02]) for d in digs})
            out = runner.execute(c, record=False)
            rec.probe("real_pool_runs")
            rec["sim_runs"] += 1
            fp = fingerprint(out)
            if fp != fp0:
                rec["findings"].append(finding(
                    "C14", "C14:realpool", f"real fork pool differs from simulated reference: {fp0} vs {fp}",
                    dict(ref=case, variant=c, what="realpool")))
        if ref.ok:
            rec["sig"] = trace.history_signature(ref) + [len(orders)]
            rec["nontrivial"] = nontrivial and trace.rounds(ref) >= 1
            if trace.repop_events(ref):
                rec.probe("repopulation_happened")
            rec.probe("exit_" + trace.exit_reason(ref))
        else:
            rec.probe("reference_raised_" + ref.exc[0])
        # minimise findings
        for f in rec["findings"]:
            f["case"] = safe(lambda: self.minimise_pair(f["case"], f["key"]), rec, "minimise") or f["case"]
        return rec

    # ------------------------------------------------------------------
    def replay(self, rp):
        ref = runner.execute(rp["ref"], record=False)
        out = runner.execute(rp["variant"], record=False)
        fp0, fp = fingerprint(ref), fingerprint(out)
        if fp != fp0:
            return [finding("C14", f"C14:{rp['what']}", f"{rp['what']} variant differs from reference: {fp0} vs {fp}",
                            rp, extra=dict(event_digest=out.event_digest))]
        return []

    def minimise_pair(self, rp, key, budget=24):
        """Shrink reference and variant together (same data/hyper-parameter change in both)."""
        from .base import simplifications
        best = rp

        def fails(c):
            try:
                return any(f["key"] == key for f in self.replay(c))
            except Exception:
                return False
        # variant-only simplifications first
        for name in ("history", "choices", "cold"):
            if budget <= 0:
                break
            c = copy.deepcopy(best)
            v = c["variant"]
            if name == "history" and v.get("history") and len(v["history"]) > 1:
                v["history"] = v["history"][-1:]
            elif name == "choices" and v["pool"].get("kind") == "sim":
                v["pool"]["choices"] = []
                v["pool"]["bias"] = "fifo"
            elif name == "cold" and v["pool"].get("cold_cache"):
                v["pool"]["cold_cache"] = False
            else:
                continue
            budget -= 1
            if fails(c):
                best = c
        for simp in simplifications(best["ref"]):
            if budget <= 0:
                break
            if simp.__name__ in ("drop_history", "fifo", "eager", "no_mp"):
                continue
            a, b = simp(best["ref"]), simp(best["variant"])
            if a is None or b is None:
                continue
            budget -= 1
            c = dict(ref=a, variant=b, what=best["what"])
            if fails(c):
                best = c
        return best


PROP = C14()
