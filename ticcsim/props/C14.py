"""C14 - results are reproducible and independent of process scheduling.

The same seeded call is executed under many simulated schedules, worker counts,
pickling moments, cache temperatures and process histories and compared bit for bit
with a reference execution (FIFO schedule, one worker, fresh history)."""

import copy

from .. import core, runner, trace, workload
from .base import Prop, Record, finding, freeze_decisions, safe


def fingerprint(out):
    if out.ok:
        return ("ok", out.result_digest)
    return ("raise", out.exc[0], out.exc[1][:200])


class C14(Prop):
    id = "C14"
    level = "exploration"
    rule = ("one case = one seeded front-end call (swarm configuration) executed once as reference "
            "(FIFO, 1 worker, fresh history) and then under S simulated schedules x worker counts x "
            "pickling moments x cache temperatures, under preceding process histories, and (some cases) "
            "under the real fork pool with seeded per-task delays; all results compared bitwise. "
            "Non-trivial: the reference run completed at least one round and at least one variant finished "
            "tasks out of submission order or ran after a non-empty history. Distinct: by (rounds, "
            "repopulations, exit reason, empty pattern, K, W, N, front end, #series, #distinct finish orders).")
    assumptions = ["BLAS pinned to one thread (replay exactness); independence of BLAS thread count is assumed",
                   "real-pool conformance runs are observations of OS scheduling, counted separately",
                   "worker death (as opposed to a raising task) is outside the fault model"]

    def plan(self, tier):
        # group "xproc": the same seeds, reference run only, in few long-lived interpreters with another hash seed:
        # every case there runs after a different set of earlier calls than in the main group
        if tier == "quick":
            return {"nojit": dict(count=90, workers=15, seed_tag="all"),
                    "xproc": dict(mode="nojit", count=90, workers=1, seed_tag="all", hashseed="4242"),
                    "_soft_deadline": 120}
        return {"nojit": dict(count=6000, workers=14, seed_tag="all"),
                "xproc": dict(mode="nojit", count=6000, workers=2, seed_tag="all", hashseed="4242"),
                "_soft_deadline": 1500}

    def base_case(self, seed):
        case = workload.gen_case("C14", seed, lambda_forms=("float", "float", "matrix_const", "matrix_sym"),
                                 beta_forms=("int", "float", "vector_const", "vector_rand"), big_nw_p=0.0,
                                 limits=(1, 2, 3, 5, 8), T=(None, 90))
        # reference: FIFO, one worker, warm caches, fresh history
        case["mp_switch"] = False
        case["pool"] = dict(kind="sim", sched_seed=0, bias="fifo", eager_pickle_p=1.0, cold_cache=False,
                            choices=[], direct=False)
        return case

    # ------------------------------------------------------------------
    def variants(self, case, seed, tier, ref_out):
        r = core.rng(seed, "C14", "variants")
        vs = []
        nsched = 4 if tier == "quick" else 8
        for s in range(nsched):
            c = workload.clone(case)
            c["mp_switch"] = True
            c["args"]["num_processors"] = r.randint(1, 8)
            c["pool"] = dict(kind="sim", sched_seed=core.H(seed, "sched", s),
                             bias=r.choice(["fifo", "lifo", "uniform", "uniform"]),
                             eager_pickle_p=r.choice([0.0, 0.5, 1.0]),
                             cold_cache=r.random() < 0.5, choices=None, direct=False)
            vs.append(("sched", c))
        # worker count x switch
        for p, sw in [(1, True), (8, False), (r.randint(2, 8), True)]:
            c = workload.clone(case)
            c["mp_switch"] = sw
            c["args"]["num_processors"] = p
            c["pool"]["sched_seed"] = core.H(seed, "np", p, sw)
            c["pool"]["bias"] = "uniform"
            vs.append(("nproc", c))
        # hyper-parameter sweep: the same data and seeds were fitted just before with other settings
        c = workload.clone(case)
        hist = []
        for j in range(r.randint(1, 2)):
            h = workload.clone(case)
            h["history"] = []
            what = r.choice(["lambda", "biased", "beta", "lambda", "floor"])
            if what == "floor":
                h["args"]["min_meaningful_covariance"] = dict(form="float", value=r.choice([1e-3, 0.05, 0.2]))
            elif what == "lambda":
                h["args"]["sparsity_weight"] = dict(form="float", value=r.choice([0.02, 0.6, 3.0]), seed=0)
            elif what == "biased":
                h["args"]["biased_covariance"] = not h["args"]["biased_covariance"]
            else:
                h["args"]["label_switching_cost"] = dict(form="float", value=r.choice([0.0, 1.0, 50.0]), seed=0)
            hist.append(h)
        c["history"] = hist
        c["pool"]["sched_seed"] = core.H(seed, "sweep")
        if r.random() < 0.5:
            # the whole sweep runs with the pool enabled and the same worker count
            c["mp_switch"] = True
            c["args"]["num_processors"] = r.randint(1, 4)
            for h in hist:
                h["mp_switch"] = True
                h["args"]["num_processors"] = c["args"]["num_processors"]
        vs.append(("history", c))
        # one buffer, refilled in place between calls: the earlier call saw other values in the very same array object(s)
        c = workload.clone(case)
        h = workload.clone(case)
        h["history"] = []
        h["data"]["seed"] = core.H(seed, "refill")
        h["args"]["iteration_limit"] = min(h["args"]["iteration_limit"], 3)
        if r.random() < 0.5:
            h["args"]["sparsity_weight"] = dict(form="float", value=r.choice([0.02, 0.6]), seed=0)
        c["history"] = [h]
        c["reuse_buffer"] = True
        c["pool"]["sched_seed"] = core.H(seed, "refill_sched")
        vs.append(("refill", c))
        # preceding process history
        for hno in range(2 if tier == "quick" else 3):
            c = workload.clone(case)
            hist = []
            for j in range(r.randint(1, 3)):
                hseed = core.H(seed, "hist", hno, j)
                if r.random() < 0.4:
                    # same shape (N, W) as the call under test: shares memoised entries
                    h = workload.gen_case("C14h", hseed, N=(case["data"]["N"],) * 2,
                                          W=(case["args"]["window_size"],) * 2,
                                          lambda_forms=("float", "matrix_const", "matrix_sym"))
                else:
                    h = workload.gen_case("C14h", hseed, lambda_forms=("float", "matrix_const", "matrix_sym"),
                                          beta_forms=("int", "float", "vector_const"))
                h["args"]["iteration_limit"] = min(h["args"]["iteration_limit"], 3)
                if r.random() < 0.3:
                    h["args"]["min_cluster_size"] = 500   # a failing earlier call (no donor) when it repopulates
                hist.append(h)
            c["history"] = hist
            c["mp_switch"] = r.random() < 0.5
            c["pool"]["sched_seed"] = core.H(seed, "histsched", hno)
            c["pool"]["cold_cache"] = False
            vs.append(("history", c))
        return vs

    def run_case(self, idx, seed, tier, mode):
        import os
        rec = Record()
        case = self.base_case(seed)
        if os.environ.get("TICCSIM_GROUP") == "xproc":
            ref = runner.execute(case, record=False)
            rec.absorb(ref)
            rec["ref_fp"] = list(fingerprint(ref))
            rec["xproc"] = True
            rec["sig"] = ["xproc", seed % 10 ** 9]
            rec.probe("xproc_reference_runs")
            return rec
        import time as _t
        _t0 = _t.time()
        ref = runner.execute(case)
        ref_wall = _t.time() - _t0
        rec.absorb(ref)
        fp0 = fingerprint(ref)
        rec["ref_fp"] = list(fp0)
        rec["sample"] = dict(case=workload.brief(case), reference=list(fp0),
                             rounds=trace.rounds(ref), exit=trace.exit_reason(ref) if ref.ok else None)
        # plain repetition (also the determinism self-test of the harness)
        rep = runner.execute(case)
        rec.absorb(rep)
        if fingerprint(rep) != fp0 or rep.event_digest != ref.event_digest:
            rec["findings"].append(finding("C14", "C14:repeat", f"two identical executions differ: {fp0} vs {fingerprint(rep)}",
                                           dict(ref=case, variant=case, what="repeat")))
        orders = set()
        nontrivial = False
        variants = self.variants(case, seed, tier, ref)
        if tier == "quick" and ref_wall > 1.0:
            # an expensive configuration (slowly converging solver): keep one variant of each kind in the quick tier
            seen_kinds, kept = {}, []
            for what, c in variants:
                if seen_kinds.get(what, 0) < (2 if what == "sched" else 1):
                    seen_kinds[what] = seen_kinds.get(what, 0) + 1
                    kept.append((what, c))
            variants = kept
            rec.probe("expensive_case_fewer_variants")
        for what, c in variants:
            out = runner.execute(c, record=False)
            rec.absorb(out)
            orders.add(trace.finish_signature(out))
            if trace.out_of_order(out):
                rec.probe("finish_out_of_order")
                nontrivial = True
            if what == "history":
                rec.probe("history_len_%d" % len(c["history"]))
                if any(not ok for ok, _ in out.history_outcomes):
                    rec.probe("history_with_failed_call")
                nontrivial = True
            if what == "refill":
                rec.probe("refill_buffer_reused" if getattr(out, "buffer_reused", False) else "refill_buffer_did_not_fit")
                nontrivial = True
            fp = fingerprint(out)
            if fp != fp0:
                rc = freeze_decisions(c, out)
                rec["findings"].append(finding(
                    "C14", f"C14:{what}", f"{what} variant differs from reference: {fp0} vs {fp}",
                    dict(ref=case, variant=rc, what=what), extra=dict(event_digest=out.event_digest)))
                break
        # real pool conformance (observation, not simulation)
        r = core.rng(seed, "C14", "real")
        if ref.ok and r.random() < (0.2 if tier == "quick" else 0.1):
            c = workload.clone(case)
            c["mp_switch"] = True
            c["args"]["num_processors"] = r.randint(1, 4)
            digs = [t["cov_digest"] for t in ref.sim.tasks]
            c["pool"] = dict(kind="real", sched_seed=0, bias="fifo", eager_pickle_p=1.0, cold_cache=False,
                             choices=[], direct=False,
                             delays={d: r.choice([0, 0, 0.005, 0.02]) for d in digs})
            out = runner.execute(c, record=False)
            rec.probe("real_pool_runs")
            rec["sim_runs"] += 1
            fp = fingerprint(out)
            if fp != fp0:
                rec["findings"].append(finding(
                    "C14", "C14:realpool", f"real fork pool differs from simulated reference: {fp0} vs {fp}",
                    dict(ref=case, variant=c, what="realpool")))
        if ref.ok:
            rec["sig"] = trace.history_signature(ref) + [len(orders)]
            rec["nontrivial"] = nontrivial and trace.rounds(ref) >= 1
            if trace.repop_events(ref):
                rec.probe("repopulation_happened")
            rec.probe("exit_" + trace.exit_reason(ref))
        else:
            rec.probe("reference_raised_" + ref.exc[0])
        # minimise findings
        for f in rec["findings"]:
            f["case"] = safe(lambda: self.minimise_pair(f["case"], f["key"]), rec, "minimise") or f["case"]
        return rec

    # parent side: the same case after different process histories ---------------------
    def cross_check(self, records):
        main = {r["idx"]: r for r in records if "ref_fp" in r and not r.get("xproc")}
        xp = sorted((r for r in records if r.get("xproc")), key=lambda r: r["idx"])
        findings = []
        compared = 0
        for r in xp:
            m = main.get(r["idx"])
            if m is None:
                continue
            compared += 1
            if m["ref_fp"] != r["ref_fp"] and not findings:
                earlier = [q["seed"] for q in xp if q["idx"] < r["idx"] and q.get("stripe") == r.get("stripe")]
                f = finding("C14", "C14:process_history",
                            f"the same seeded call gives {m['ref_fp']} in one interpreter and {r['ref_fp']} in another "
                            f"interpreter where {len(earlier)} other calls had been made before it",
                            dict(what="xproc", seed=r["seed"], earlier=earlier))
                findings.append(f)
        for r in records:
            if "ref_fp" in r:
                r.setdefault("probes", {})["cases_compared_across_process_histories"] = compared
                break
        return findings

    # ------------------------------------------------------------------
    def replay(self, rp):
        if rp.get("what") == "xproc":
            return self.replay_xproc(rp)
        ref = runner.execute(rp["ref"], record=False)
        out = runner.execute(rp["variant"], record=False)
        fp0, fp = fingerprint(ref), fingerprint(out)
        if fp != fp0:
            return [finding("C14", f"C14:{rp['what']}", f"{rp['what']} variant differs from reference: {fp0} vs {fp}",
                            rp, extra=dict(event_digest=out.event_digest))]
        return []

    def replay_xproc(self, rp):
        """This (fresh) interpreter makes the earlier calls and then the call; a child interpreter makes the call alone."""
        import json
        import os
        import subprocess
        import sys
        for s_ in rp["earlier"]:
            runner.execute(self.base_case(s_), record=False)
        out = runner.execute(self.base_case(rp["seed"]), record=False)
        fp_after = list(fingerprint(out))
        p = subprocess.run([sys.executable, "-m", "ticcsim.props.C14", str(rp["seed"])], env=core.mode_env("nojit"),
                           cwd=core.VERIF_ROOT, capture_output=True, text=True, timeout=900)
        fp_alone = None
        for line in p.stdout.splitlines():
            if line.startswith("FP "):
                fp_alone = json.loads(line[3:])
        if fp_alone is None:
            raise core.HarnessError("child interpreter gave no fingerprint: " + (p.stdout + p.stderr)[-300:])
        if fp_alone != fp_after:
            return [finding("C14", "C14:process_history", f"alone in a fresh interpreter: {fp_alone}; after "
                            f"{len(rp['earlier'])} earlier calls: {fp_after}", rp, extra=dict(event_digest=out.event_digest))]
        return []

    def minimise_pair(self, rp, key, budget=24):
        """Shrink reference and variant together (same data/hyper-parameter change in both)."""
        from .base import simplifications
        best = rp

        def fails(c):
            try:
                return any(f["key"] == key for f in self.replay(c))
            except Exception:
                return False
        # variant-only simplifications first
        for name in ("history", "choices", "cold"):
            if budget <= 0:
                break
            c = copy.deepcopy(best)
            v = c["variant"]
            if name == "history" and v.get("history") and len(v["history"]) > 1:
                v["history"] = v["history"][-1:]
            elif name == "choices" and v["pool"].get("kind") == "sim":
                v["pool"]["choices"] = []
                v["pool"]["bias"] = "fifo"
            elif name == "cold" and v["pool"].get("cold_cache"):
                v["pool"]["cold_cache"] = False
            else:
                continue
            budget -= 1
            if fails(c):
                best = c
        for simp in simplifications(best["ref"]):
            if budget <= 0:
                break
            if simp.__name__ in ("drop_history", "fifo", "eager", "no_mp"):
                continue
            a, b = simp(best["ref"]), simp(best["variant"])
            if a is None or b is None:
                continue
            budget -= 1
            c = dict(ref=a, variant=b, what=best["what"])
            if fails(c):
                best = c
        return best


PROP = C14()

if __name__ == "__main__":
    import json as _json
    import sys as _sys
    from ticcsim.props import C14 as _self          # avoid the __main__ double-load trap
    core.load_fast_ticc()
    _o = runner.execute(_self.PROP.base_case(int(_sys.argv[1])), record=False)
    print("FP " + _json.dumps(list(_self.fingerprint(_o))))
