"""Properties decided by oracles over the recorded history of one traced simulated run."""

from .. import core, runner, trace, workload
from .base import Prop, Record, finding, freeze_decisions, safe


_MINIMISED = set()


class TracedProp(Prop):
    profile = {}
    oracle = None            # staticmethod(out, rec=...) -> [(key, detail)]
    counts = dict(quick=600, thorough=30000)
    extra_rule = ""
    nontrivial_needs = "completed"     # or "any"
    gen_name = None

    def plan(self, tier):
        if tier == "quick":
            return {"nojit": dict(count=self.counts["quick"], workers=16), "_soft_deadline": 80}
        return {"nojit": dict(count=self.counts["thorough"], workers=16), "_soft_deadline": 1500}

    @property
    def rule(self):
        return ("one case = one seeded front-end call with a swarm configuration (data recipe, N, W, K, series, "
                "parameter forms, limit, min cluster size, estimator, worker count, simulated schedule, donor draws) "
                "executed by real fast_ticc code under SimPool with every phase recorded; the oracle is evaluated on "
                "the recorded history and the result. " + self.extra_rule +
                " Distinct: by history signature (rounds, repopulation events, exit reason, empty-cluster pattern, "
                "K, W, N, front end, #series).")

    def tweak(self, case, r, tier):
        """Per-property adjustments of a generated case."""
        return case

    def gen(self, seed, tier):
        case = workload.gen_case(self.gen_name or self.id, seed, self.profile)
        return self.tweak(case, core.rng(seed, self.id, "tweak"), tier)

    def judge(self, out, rec):
        res = safe(lambda: type(self).oracle(out, rec=rec), rec, f"{self.id} oracle")
        return res or []

    def is_nontrivial(self, out):
        return out.ok and trace.rounds(out) >= 1

    def run_case(self, idx, seed, tier, mode):
        rec = Record()
        case = self.gen(seed, tier)
        out = runner.execute(case)
        rec.absorb(out)
        self.common_probes(out, rec)
        found = self.judge(out, rec)
        frozen = freeze_decisions(case, out)
        for key, detail in found:
            f = finding(self.id, key, detail, frozen, extra=dict(event_digest=out.event_digest))
            if key not in _MINIMISED:
                # minimise the first instance of each oracle key per worker; later ones are reported as found
                _MINIMISED.add(key)
                c = safe(lambda: self.minimise(frozen, key), rec, "minimise")
                if c is not None:
                    f["case"] = c
            rec["findings"].append(f)
        rec["sig"] = trace.history_signature(out) if out.ok else ["raised", out.exc[0]]
        rec["nontrivial"] = self.is_nontrivial(out)
        rec["sample"] = dict(case=workload.brief(case), ok=out.ok, exc=out.exc,
                             rounds=trace.rounds(out), exit=trace.exit_reason(out) if out.ok else None,
                             phases=[p["name"] for p in out.sim.phases][:40],
                             pool_events=[(e["kind"], e.get("task"), e.get("worker"))
                                          for e in out.sim.events if e["kind"] in
                                          ("submit", "start", "finish", "pickle", "close", "join")][:24])
        return rec

    def common_probes(self, out, rec):
        if out.ok:
            rec.probe("completed")
            rec.probe("exit_" + trace.exit_reason(out))
            if trace.repop_events(out):
                rec.probe("repopulation_happened")
                for p in trace.repop_events(out):
                    sz = trace.sizes(trace.first_state(p))
                    if sum(1 for s in sz if s < 2) >= 2:
                        rec.probe("two_clusters_refilled_at_once")
            fs = trace.final_state(out)
            if fs and min(trace.sizes(fs)) == 0:
                rec.probe("cluster_ended_empty")
            if trace.rounds(out) >= 3:
                rec.probe("three_or_more_rounds")
            if trace.out_of_order(out):
                rec.probe("finish_out_of_order")
            if out.case["front"] == "joint" and len(out.case["data"]["lengths"]) > 1 and fs:
                for b in trace.boundaries(out.case):
                    if fs["labels"][b] != fs["labels"][b + 1]:
                        rec.probe("label_switch_on_series_boundary")
                        break
        else:
            rec.probe("raised_" + out.exc[0])

    def replay(self, case):
        out = runner.execute(case)
        rec = Record()
        found = self.judge(out, rec)
        if rec["harness"]:
            raise core.HarnessError("; ".join(rec["harness"]))
        return [finding(self.id, key, detail, case, extra=dict(event_digest=out.event_digest))
                for key, detail in found]
