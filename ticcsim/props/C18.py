"""C18 - equivalent parameter forms give identical results.

Paired replays of one seeded simulated run under equivalent parameter forms,
bit-compared on the whole result; also at the optimiser entry point for the
(S, lambda) pairs that occurred in the run.  Configuration-only: what simulation
contributes is that two runs are comparable at all."""

import numpy as np

from .. import core, runner, trace, workload
from .base import Prop, Record, finding, freeze_decisions, safe
from .C14 import C14, fingerprint

DYADIC_L = (0.0, 0.125, 0.5, 1.0, 2.0)
# values that a narrow NumPy float represents exactly although their small multiples do not stay exact in that type
NARROW_L = (float(np.float32(0.11)), float(np.float32(0.3)), float(np.float16(0.11)), float(np.float16(0.7)))
ANY_L = DYADIC_L + (0.11, 0.01, 0.3) + NARROW_L
SCALAR_FORMS = ("int", "float", "np.float32", "np.float64", "np.int32", "np.int64")


def forms_for(value):
    v = float(value)
    out = ["float", "np.float64"]
    if v == int(v) and abs(v) < 2 ** 31:
        out += ["int", "np.int32", "np.int64"]
        if v >= 0:
            out += ["np.uint32", "np.uint64"]
        if -2 ** 15 <= v < 2 ** 15:
            out.append("np.int16")
        if 0 <= v < 2 ** 16:
            out.append("np.uint16")
        if -128 <= v < 128:
            out.append("np.int8")
        if 0 <= v < 256:
            out.append("np.uint8")
    out.append("np.longdouble")      # extended precision represents every double exactly
    if float(np.float32(v)) == v:
        out.append("np.float32")
    if abs(v) < 6e4 and float(np.float16(v)) == v:
        out.append("np.float16")
    return out


def residual_balancing(rho, r_primal, e_primal, r_dual, e_dual):
    """A standard adaptive-rho callback (Boyd et al. 3.4.1)."""
    if r_primal > 10 * r_dual:
        return rho * 2.0
    if r_dual > 10 * r_primal:
        return rho / 2.0
    return rho


def sum_order_can_differ(lam, w):
    """Can lambda*k and the sum of k copies of lambda differ for some k <= W?  (never for dyadic lambda or W <= 3)"""
    lam = float(lam)
    return any(lam * k != float(np.sum(np.full(k, lam))) for k in range(1, int(w) + 1))


def within_rounding(fa, fb, rtol=1e-9):
    """Two result-field dicts: same labels/ints, floats equal within rtol (relative to the field's magnitude)."""
    if fa is None or fb is None or set(fa) != set(fb):
        return False
    for k in fa:
        a, b = fa[k], fb[k]
        if k == "point_labels":
            if a != b:
                return False
            continue
        xa = np.asarray(a, dtype=float) if not isinstance(a, list) or not a or not isinstance(a[0], np.ndarray) \
            else np.concatenate([np.ravel(v) for v in a])
        xb = np.asarray(b, dtype=float) if not isinstance(b, list) or not b or not isinstance(b[0], np.ndarray) \
            else np.concatenate([np.ravel(v) for v in b])
        if xa.shape != xb.shape:
            return False
        scale = max(float(np.max(np.abs(xa))) if xa.size else 0.0, 1e-300)
        if not np.all(np.abs(xa - xb) <= rtol * scale):
            return False
    return True


def counterfactual_lambda_sum(orig):
    """The scalar branch computed the way the matrix branch does (sum over positions)."""
    def patched(lambda_parameter, block_id, row, column, block_size, num_blocks):
        if not isinstance(lambda_parameter, np.ndarray):
            nw = block_size * num_blocks
            lambda_parameter = np.full((nw, nw), float(lambda_parameter))
        return orig(lambda_parameter, block_id, row, column, block_size, num_blocks)
    return patched


class C18(Prop):
    id = "C18"
    level = "exploration"
    rule = ("one case = one seeded simulated run in canonical forms (float lambda, float beta, float floor) re-executed with "
            "(a) lambda as the constant NWxNW matrix, (b) beta as the constant per-pair vector, (c) each scalar "
            "hyper-parameter as int / float / NumPy float16/32/64/longdouble / NumPy (u)int8..64 wherever that type represents "
            "the value exactly, and (d) the optimiser entry point called directly with each form for the (S, lambda) pairs "
            "recorded in the run; whole results compared bitwise. A scalar-vs-matrix difference is attributed to the known "
            "finding only if re-running the scalar form with the lambda sum computed position by position (counterfactual "
            "seam) reproduces the matrix result bit for bit. Non-trivial: the base run completed >= 1 round. Distinct: by "
            "history signature + parameter values.")
    assumptions = ["configuration-only search; schedule/faults play no role in this property"]

    def plan(self, tier):
        if tier == "quick":
            return {"nojit": dict(count=160, workers=13), "jit": dict(count=24, workers=3, numba_threads=4),
                    "_soft_deadline": 90}
        # the compiled kernels type their arguments: equivalent forms must agree there too
        return {"nojit": dict(count=8000, workers=13), "jit": dict(count=1200, workers=3, numba_threads=4),
                "_soft_deadline": 1500}

    def gen(self, seed):
        r = core.rng(seed, "C18", "gen")
        wide = r.random() < 0.35       # W >= 4 is where lambda*k and sum_k(lambda) can differ
        case = workload.gen_case("C18", seed, lambda_values=(ANY_L if r.random() < 0.5 else DYADIC_L) if r.random() < 0.75
                                 else NARROW_L,
                                 beta_values=(0, 0.5, 2, 2.5, 5, 7.25, 20, 200), beta_forms=("float",),
                                 lambda_forms=("float",), mmc_values=(0, 0, 2.0 ** -10, 2.0 ** -7),
                                 limits=(1, 2, 3, 5), N=(1, 1) if wide else (1, 3), W=(4, 8) if wide else (1, 4),
                                 max_nw=8)
        return case

    def variants(self, case, r):
        vs = []
        a = case["args"]
        c = workload.clone(case)
        c["args"]["sparsity_weight"]["form"] = "matrix_const"
        vs.append(("lambda_matrix", c))
        c = workload.clone(case)
        c["args"]["label_switching_cost"]["form"] = "vector_const"
        vs.append(("beta_vector", c))
        for name in ("sparsity_weight", "label_switching_cost", "min_meaningful_covariance"):
            fs = [f for f in forms_for(a[name]["value"]) if f != "float"]
            narrow = [f for f in fs if f in ("np.float32", "np.float16")]
            picks = r.sample(fs, min(3, len(fs)))
            if narrow and not set(picks) & set(narrow):
                picks[-1] = r.choice(narrow)
            for f in picks:
                c = workload.clone(case)
                c["args"][name]["form"] = f
                vs.append((f"{name}:{f}", c))
        return vs

    def compare(self, case, what, c, fp0, rec=None, base_fields=None):
        """Returns (key, detail) or None."""
        out = runner.execute(c, record=False)
        if rec is not None:
            rec.absorb(out)
        fp = fingerprint(out)
        if fp == fp0:
            return None
        if what == "lambda_matrix":
            # R4: is this exactly the known summation-order deviation?
            ft = core.load_fast_ticc()
            import fast_ticc.admm.solver as solver
            pat = core.Patcher()
            pat.set_attr(solver, "compute_lambda_sum", counterfactual_lambda_sum(solver.compute_lambda_sum))
            try:
                cf = runner.execute(case, record=False)
            finally:
                pat.restore()
            if fingerprint(cf) != fp and out.ok and cf.ok and \
                    sum_order_can_differ(case["args"]["sparsity_weight"]["value"], case["args"]["window_size"]) and \
                    within_rounding(base_fields, out.fields):
                # the counterfactual seam does not apply to this tree (the scalar branch no longer goes through it), but
                # the precondition of the known finding holds and the two results agree to rounding (1e-9): same finding
                return ("C18:lambda_sum_order",
                        f"scalar lambda={case['args']['sparsity_weight']['value']} and the constant matrix differ at rounding "
                        f"level only (W={case['args']['window_size']}, lambda*k != sum_k(lambda) for some k <= W); attributed "
                        f"by magnitude because the counterfactual seam has no effect on this tree")
            if fingerprint(cf) == fp:
                return ("C18:lambda_sum_order",
                        f"scalar lambda={case['args']['sparsity_weight']['value']} and the constant matrix differ "
                        f"(W={case['args']['window_size']}): {fp0} vs {fp}; with the scalar branch summing position by "
                        f"position the results are bit-identical, i.e. lambda*k vs sum_k(lambda) rounding")
            return ("C18:scalar_vs_matrix", f"scalar lambda and the constant matrix give different results: {fp0} vs {fp}")
        if what == "beta_vector":
            return ("C18:scalar_vs_vector", f"scalar beta and the constant vector give different results: {fp0} vs {fp}")
        if fp[0] == "raise" and fp0[0] == "ok":
            return ("C18:form_raises", f"{what}: the call raises {fp[1]}({fp[2][:100]!r}) although the float form completes")
        return ("C18:form_differs", f"{what}: result differs from the float form: {fp0} vs {fp}")

    def entry_point(self, base_out, case, r, rec):
        """The optimiser entry point with each lambda form, for (S, lambda) pairs of the run."""
        f = []
        import fast_ticc.admm as admm
        tasks = [t for t in base_out.sim.tasks if t["theta"] is not None and isinstance(t["args"][0], np.ndarray)
                 and t["args"][0].ndim == 2]
        if not tasks:
            return f
        lam = case["args"]["sparsity_weight"]["value"]
        nw = case["data"]["N"] * case["args"]["window_size"]
        for t in r.sample(tasks, min(2, len(tasks))):
            forms = [fm for fm in forms_for(lam) if fm != "float"] + ["matrix_const"]
            # the entry point's own step parameters: as recorded (rho=1, no callback), or another rho / an adaptive rho
            kw = dict(t["kwds"])
            step = r.choice(["recorded", "rho", "callback"])
            if step == "rho":
                kw["rho"] = r.choice([0.5, 2.0, 4.0])
            elif step == "callback":
                kw["rho_update"] = residual_balancing
                kw["max_iterations"] = 200
            if step != "recorded":
                rec.probe("entry_point_step_" + step)
                try:
                    base_theta = np.asarray(admm.admm_optimize_theta(np.array(t["args"][0], copy=True), float(lam),
                                                                     t["args"][2], t["args"][3], **kw).theta)
                except Exception:  # noqa: BLE001
                    continue
            else:
                base_theta = t["theta"]
            for fm in r.sample(forms, min(2, len(forms))):
                lv = workload.make_lambda(dict(form=fm, value=lam, seed=0), nw)
                try:
                    res = admm.admm_optimize_theta(np.array(t["args"][0], copy=True), lv, t["args"][2], t["args"][3],
                                                   **kw)
                    same = np.array_equal(np.asarray(res.theta), base_theta, equal_nan=True)
                except Exception as e:  # noqa: BLE001
                    f.append(("C18:entry_form_raises", f"optimiser entry point rejects lambda as {fm}: {type(e).__name__}: {e}"))
                    continue
                rec.probe("entry_point_pairs")
                if not same:
                    if fm == "matrix_const":
                        import fast_ticc.admm.solver as solver
                        pat = core.Patcher()
                        pat.set_attr(solver, "compute_lambda_sum", counterfactual_lambda_sum(solver.compute_lambda_sum))
                        try:
                            cf = admm.admm_optimize_theta(np.array(t["args"][0], copy=True), float(lam), t["args"][2],
                                                          t["args"][3], **kw)
                        finally:
                            pat.restore()
                        if np.array_equal(np.asarray(cf.theta), np.asarray(res.theta), equal_nan=True):
                            f.append(("C18:lambda_sum_order", f"optimiser entry point: scalar lambda={lam} vs constant matrix "
                                                              f"differ by summation order (W={t['args'][2]})"))
                            continue
                        ta, tb = np.asarray(base_theta, dtype=float), np.asarray(res.theta, dtype=float)
                        if sum_order_can_differ(lam, t["args"][2]) and ta.shape == tb.shape and \
                                np.all(np.abs(ta - tb) <= 1e-9 * max(float(np.max(np.abs(ta))), 1e-300)):
                            f.append(("C18:lambda_sum_order", f"optimiser entry point: scalar lambda={lam} vs constant matrix "
                                                              f"differ at rounding level only (W={t['args'][2]}); attributed by "
                                                              f"magnitude, the counterfactual seam has no effect on this tree"))
                            continue
                        f.append(("C18:entry_scalar_vs_matrix", "optimiser entry point: scalar vs constant-matrix lambda differ"))
                    else:
                        f.append(("C18:entry_form_differs", f"optimiser entry point: lambda as {fm} gives a different Theta"))
        return f

    def run_case(self, idx, seed, tier, mode):
        rec = Record()
        r = core.rng(seed, "C18", "plan")
        case = self.gen(seed)
        if r.random() < 0.5:
            # same shapes, integer-typed scalars of other values, executed first in this process history
            primer = workload.clone(case)
            primer["args"]["label_switching_cost"] = dict(form=r.choice(["int", "np.int64"]), value=r.choice([1, 3, 40]), seed=0)
            primer["args"]["sparsity_weight"] = dict(form=r.choice(["int", "np.float32"]), value=r.choice([1, 2]), seed=0)
            primer["args"]["iteration_limit"] = 2
            case["history"] = [primer]
            rec.probe("primer_call_in_other_forms")
        base = runner.execute(case)
        rec.absorb(base)
        fp0 = fingerprint(base)
        for what, c in self.variants(case, r):
            res = safe(lambda: self.compare(case, what, c, fp0, rec, base.fields), rec, "compare")
            rec.probe("pairs_compared")
            if res:
                key, detail = res
                if not any(f["key"] == key for f in rec["findings"]):
                    rp = dict(ref=case, variant=c, what=what)
                    rec["findings"].append(finding("C18", key, detail, rp))
        if base.ok:
            seen = {f["key"] for f in rec["findings"]}
            for key, detail in safe(lambda: self.entry_point(base, case, r, rec), rec, "entry point") or []:
                if key not in seen:
                    seen.add(key)
                    rec["findings"].append(finding("C18", key, detail, dict(ref=case, variant=None, what="entry")))
        a = case["args"]
        rec["sig"] = (trace.history_signature(base) if base.ok else ["raised", base.exc[0]]) + \
                     [a["sparsity_weight"]["value"], a["label_switching_cost"]["value"],
                      a["min_meaningful_covariance"]["value"]]
        rec["nontrivial"] = base.ok and trace.rounds(base) >= 1
        rec["sample"] = dict(case=workload.brief(case), reference=list(fp0),
                             variants=[w for w, _ in self.variants(case, core.rng(seed, "C18", "plan"))])
        if a["window_size"] >= 4:
            rec.probe("window_ge_4")
        for f in rec["findings"]:
            if f["case"].get("variant") is not None:
                f["case"] = safe(lambda: self.minimise_pair(f["case"], f["key"]), rec, "minimise") or f["case"]
        return rec

    def replay(self, rp):
        case = rp["ref"]
        base = runner.execute(case)
        fp0 = fingerprint(base)
        if rp["what"] == "entry":
            rec = Record()
            f = self.entry_point(base, case, core.rng(case["seed"], "C18", "plan"), rec) if base.ok else []
            # entry_point draws from r after variants() did; re-derive the same stream
            if not f and base.ok:
                r = core.rng(case["seed"], "C18", "plan")
                self.variants(case, r)
                f = self.entry_point(base, case, r, rec)
            return [finding("C18", k, d, rp, extra=dict(event_digest=base.event_digest)) for k, d in f]
        res = self.compare(case, rp["what"], rp["variant"], fp0, None, base.fields)
        return [finding("C18", res[0], res[1], rp, extra=dict(event_digest=base.event_digest))] if res else []

    minimise_pair = C14.minimise_pair


PROP = C18()
