"""C15 - numba acceleration is semantically transparent.

The same seeds go to three kinds of worker interpreter whose execution mode is fixed at
interpreter start: JIT, NUMBA_DISABLE_JIT=1, and numba import failure (injected fault).
Each worker reports a per-round summary (labels, cost, likelihood table); the parent
compares the modes round by round.  Thread schedule: in the interpreted modes the
`prange` seam yields seeded permutations/chunkings (any loop-carried dependence changes
the table); under real JIT the same run is repeated with 1,2,4,8,16 threads and compared
bitwise (observation of threads the simulator does not schedule; counted separately)."""

import base64
import json
import os
import subprocess
import sys

import numpy as np

from .. import core, reference as ref, runner, trace, workload
from .base import Prop, Record, finding, safe

EPS = np.finfo(float).eps
MODES = ("nojit", "jit", "nonumba")


def b64(a):
    return base64.b64encode(np.ascontiguousarray(a, dtype=np.float64).tobytes()).decode()


def unb64(s, shape):
    return np.frombuffer(base64.b64decode(s), dtype=np.float64).reshape(shape)


def _same_float(x, y):
    return x == y or (x != x and y != y)        # equal, or both NaN


def synthetic_kernel_inputs(seed):
    """Kernel-level inputs that are the same in every mode (derived from the seed only)."""
    g = np.random.Generator(np.random.PCG64(core.H(seed, "kernel")))
    t, k = int(g.integers(1, 40)), int(g.integers(1, 6))
    if g.random() < 0.08:
        # a long series: point index times cluster count beyond the range of small integer types
        t, k = int(g.integers(22000, 24000)), int(g.integers(3, 5))
    cost = np.round(g.normal(0, 3, size=(t, k)), int(g.integers(0, 3)))      # rounding creates ties
    u = g.random()
    if u < 0.25:
        cost = np.asfortranarray(cost)
    elif u < 0.4:
        big = np.zeros((2 * t, 2 * k))
        big[::2, ::2] = cost
        cost = big[::2, ::2]                      # non-contiguous view
    elif u < 0.55:
        cost = cost.astype(np.float32)            # another dtype (values already rounded: exactly representable)
    if k >= 2 and t < 100 and g.random() < 0.12:
        cost = np.array(cost, dtype=np.float64)
        cost[:, int(g.integers(k))] = np.inf          # a cluster no point can be assigned to; the optimum stays finite
        if g.random() < 0.5:
            cost[int(g.integers(t)), :] = np.where(np.isinf(cost[0]), np.inf, cost[int(g.integers(t))])
    elif k >= 2 and t < 100 and g.random() < 0.08:
        # a cluster whose costs are NaN (what a non-positive-definite MRF produces): garbage in, but the SAME garbage
        # must come out of the compiled and the interpreted kernel
        cost = np.array(cost, dtype=np.float64)
        cost[:, int(g.integers(k))] = np.nan
    beta = float(g.choice([0.0, 0.5, 2.0, 7.0])) if g.random() < 0.5 else np.round(g.uniform(0, 4, size=t), 1)
    n, w = int(g.integers(1, 3)), int(g.integers(1, 4))
    nw = n * w
    kk = int(g.integers(1, 4))
    pts = g.normal(0, 2, size=(int(g.integers(1, 30)), nw))
    if g.random() < 0.25:
        pts = np.asfortranarray(pts)
    mus = g.normal(0, 1, size=(kk, nw))
    thetas = []
    for _ in range(kk):
        a = g.normal(size=(nw, nw))
        thetas.append(a @ a.T + 0.5 * np.eye(nw))
    thetas = np.asarray(thetas)
    lds = np.asarray([np.linalg.slogdet(th)[1] for th in thetas])
    return cost, beta, (w, kk, mus, thetas, lds, pts)


def summarise(case, seed, kernel=True):
    """Run the case in this interpreter's mode and return the per-round summary."""
    out = runner.execute(case)
    s = dict(ok=out.ok, exc=list(out.exc) if out.exc else None, digest=out.result_digest, rounds=[],
             event_digest=out.event_digest)
    x = None
    tabs = trace.completed(out, "ll_table")
    vit = trace.completed(out, "viterbi")
    for j, p in enumerate(vit):
        tab = tabs[j]["ret"] if j < len(tabs) and isinstance(tabs[j]["ret"], np.ndarray) else None
        mag = None
        if tab is not None:
            st = trace.first_state_after(tabs[j])
            try:
                if x is None:
                    from ..oracles import ref_stacked
                    x = ref_stacked(out)
                means = [c["mean"] for c in st["clusters"]]
                thetas = [c["mrf"] for c in st["clusters"]]
                _, m = ref.log_density_table(x, means, thetas)
                mag = float(np.max(m)) if np.all(np.isfinite(m)) else None
            except Exception:
                mag = None
        s["rounds"].append(dict(labels=[int(v) for v in p["ret"][0]], cost=float(p["ret"][1]),
                                table=b64(tab) if tab is not None else None,
                                shape=list(tab.shape) if tab is not None else None, mag=mag))
    if out.ok:
        from ..oracles import flatten_result_labels
        s["final_labels"] = flatten_result_labels(out)
    if not kernel:
        return out, s
    # kernel level, same inputs in every mode
    import fast_ticc.cluster_label_assignment as cla
    import fast_ticc.likelihood as lk
    cost, beta, (w, kk, mus, thetas, lds, pts) = synthetic_kernel_inputs(seed)
    try:
        labels, c = cla.assign_point_cluster_labels(cost, beta)
        s["kernel_labels"] = [int(v) for v in labels]
        s["kernel_cost"] = float(c)
        s["kernel_exc"] = None
    except Exception as e:      # noqa: BLE001 - compared across modes
        s["kernel_labels"], s["kernel_cost"], s["kernel_exc"] = None, None, type(e).__name__ + ": " + str(e)[:100]
    tab = lk.all_points_all_clusters_log_likelihood_fast(w, kk, mus, thetas, lds, pts)
    s["kernel_table"] = b64(tab)
    s["kernel_shape"] = list(np.asarray(tab).shape)
    return out, s


def compare(case, seed, a, b, ma, mb, counters=None):
    """Compare two mode summaries; returns [(key, detail)]."""
    f = []
    nw = case["data"]["N"] * case["args"]["window_size"]
    if a["ok"] != b["ok"]:
        f.append(("C15:outcome", f"{ma}: {'ok' if a['ok'] else a['exc']} vs {mb}: {'ok' if b['ok'] else b['exc']}"))
        return f
    # kernel level
    if (a.get("kernel_exc") is None) != (b.get("kernel_exc") is None):
        f.append(("C15:kernel_labelling", f"labelling kernel on the same synthetic table: {ma} "
                                          f"{'raises ' + a['kernel_exc'] if a.get('kernel_exc') else 'returns'}, {mb} "
                                          f"{'raises ' + b['kernel_exc'] if b.get('kernel_exc') else 'returns'}"))
    elif a.get("kernel_exc") is None and (a["kernel_labels"] != b["kernel_labels"] or
                                          not _same_float(a["kernel_cost"], b["kernel_cost"])):
        cost, beta, _ = synthetic_kernel_inputs(seed)
        ca, _m = ref.path_cost(cost, beta, a["kernel_labels"])
        cb, _m2 = ref.path_cost(cost, beta, b["kernel_labels"])
        tol = 64 * cost.shape[0] * EPS * (_m + _m2 + float(np.sum(np.abs(ref.beta_vector(beta, cost.shape[0]))))) + 1e-300
        if not (abs(ca - cb) <= tol and abs(a["kernel_cost"] - b["kernel_cost"]) <= tol):
            f.append(("C15:kernel_labelling", f"labelling kernel on the same synthetic table: {ma} cost {a['kernel_cost']!r} "
                                              f"vs {mb} cost {b['kernel_cost']!r}"))
        elif counters is not None:
            counters["kernel_tie_excused"] = counters.get("kernel_tie_excused", 0) + 1
    ta, tb = unb64(a["kernel_table"], a["kernel_shape"]), unb64(b["kernel_table"], b["kernel_shape"])
    if ta.shape != tb.shape or np.max(np.abs(ta - tb)) > 64 * 36 * EPS * (np.max(np.abs(ta)) + 50):
        f.append(("C15:kernel_table", f"likelihood kernel on the same synthetic model differs between {ma} and {mb}"))
    # run level, round by round
    for j, (ra, rb) in enumerate(zip(a["rounds"], b["rounds"])):
        if ra["table"] is not None and rb["table"] is not None and ra["shape"] == rb["shape"]:
            xa, xb = unb64(ra["table"], ra["shape"]), unb64(rb["table"], rb["shape"])
            mag = max(ra["mag"] or 0.0, rb["mag"] or 0.0)
            if ra["mag"] is None or rb["mag"] is None:
                if counters is not None:
                    counters["nonfinite_round_skipped"] = counters.get("nonfinite_round_skipped", 0) + 1
                break
            tol = 64 * nw * nw * EPS * mag + 1e-300
            d = float(np.max(np.abs(xa - xb))) if xa.size else 0.0
            if not np.isfinite(d) or d > tol:
                f.append(("C15:table", f"round {j}: likelihood tables of {ma} and {mb} differ by {d:.3g} (tol {tol:.3g})"))
                break
            if d > 0 and counters is not None:
                counters["tables_equal_within_rounding_only"] = counters.get("tables_equal_within_rounding_only", 0) + 1
        if ra["labels"] != rb["labels"]:
            # R1: excused only if both labellings are optimal (within tolerance) for BOTH tables
            ok = False
            if ra["table"] is not None and rb["table"] is not None:
                _d, kw = workload.materialise(case)
                beta = kw["label_switching_cost"]
                ok = True
                for tab_s, shp in ((ra["table"], ra["shape"]), (rb["table"], rb["shape"])):
                    cost = -unb64(tab_s, shp)
                    best, _ = ref.viterbi_min(cost, beta)
                    for lab in (ra["labels"], rb["labels"]):
                        c, m = ref.path_cost(cost, beta, lab)
                        tol = 64 * len(lab) * EPS * (m + abs(best) + float(np.sum(np.abs(ref.beta_vector(beta, len(lab)))))) + 1e-300
                        if c - best > tol:
                            ok = False
            if ok:
                if counters is not None:
                    counters["label_tie_excused"] = counters.get("label_tie_excused", 0) + 1
                return f          # comparison of this run stops here
            f.append(("C15:labels", f"round {j}: {ma} and {mb} return different labellings that are not both optimal"))
            return f
        if ra["cost"] != rb["cost"]:
            mag = max(ra["mag"] or 0.0, rb["mag"] or 0.0) * len(ra["labels"])
            if abs(ra["cost"] - rb["cost"]) > 64 * nw * nw * EPS * mag + 1e-300:
                f.append(("C15:cost", f"round {j}: cost {ra['cost']!r} ({ma}) vs {rb['cost']!r} ({mb})"))
                return f
    if len(a["rounds"]) != len(b["rounds"]):
        f.append(("C15:rounds", f"{ma} ran {len(a['rounds'])} rounds, {mb} ran {len(b['rounds'])}"))
    elif a["ok"] and a.get("final_labels") != b.get("final_labels"):
        f.append(("C15:final_labels", f"complete runs return different labels in {ma} and {mb}"))
    return f


class C15(Prop):
    id = "C15"
    level = "exploration"
    rule = ("one case = one seeded simulated run executed in each of three worker kinds (JIT, NUMBA_DISABLE_JIT=1, numba "
            "import failure injected at interpreter start) plus two kernel-level calls on synthetic inputs derived from the "
            "seed; the parent compares the modes round by round (labels and cost equal, tables within derived rounding "
            "tolerance; a label disagreement is excused only if both labellings are optimal for both tables). In the "
            "interpreted modes each run is repeated under a seeded permutation/chunking of the parallel loop (prange seam) and "
            "compared bitwise; in JIT mode it is repeated with 1,2,4,8,16 threads and compared bitwise (observed, not "
            "scheduled). Non-trivial: the run completed >= 1 round in this mode. Distinct: by history signature, per mode.")
    assumptions = ["thread interleavings inside numba-compiled code cannot be scheduled from Python: that clause is observed",
                   "OMP_NUM_THREADS=1 for scikit-learn; numba's omp layer still runs NUMBA_NUM_THREADS threads (measured)"]
    components = dict(real=Prop.components["real"] + ["numba JIT (jit workers)"],
                      stub=["process pool (SimPool)", "prange iteration order (interpreted modes)", "stdout",
                            "numba itself in the import-failure mode"])

    def plan(self, tier):
        n = 96 if tier == "quick" else 4000
        return {"nojit": dict(count=n, workers=4, seed_tag="all"),
                "nonumba": dict(count=n, workers=4, seed_tag="all"),
                "jit": dict(count=n, workers=8, seed_tag="all", numba_threads=16),
                "_soft_deadline": 95 if tier == "quick" else 1500}

    def gen(self, seed):
        case = workload.gen_case("C15", seed, limits=(1, 2, 3, 5), beta_forms=("int", "float", "np.longdouble", "np.float32", "np.int32", "vector_const", "vector_rand"),
                                 lambda_values=(0.11, 0.5, 2.0), T=(None, 100), knob_p=0.2)
        case["pool"]["prange"] = "identity"
        r = core.rng(seed, "C15", "offset")
        if r.random() < 0.15:
            # raw sensor values riding on a large offset (pressures, timestamps)
            case["data"]["shift"] = [r.choice([1e4, 1e6, -1e5, 1e8]) for _ in range(case["data"]["N"])]
        return case

    def run_case(self, idx, seed, tier, mode):
        rec = Record()
        case = self.gen(seed)
        out, s = summarise(case, seed)
        rec.absorb(out)
        rec["summary"] = s
        rec["case"] = case
        found = []
        if mode in ("nojit", "nonumba"):
            r = core.rng(seed, "C15", mode)
            for style in (["shuffle", "reverse"] if tier == "quick" else ["shuffle", "reverse", "shuffle"]):
                c = workload.clone(case)
                c["pool"]["prange"] = style
                c["pool"]["sched_seed"] = core.H(seed, "prange", style, r.random())
                o2, s2 = summarise(c, seed, kernel=False)
                rec.absorb(o2)
                rec.probe("prange_schedules")
                if s2["digest"] != s["digest"] or [x["table"] for x in s2["rounds"]] != [x["table"] for x in s["rounds"]]:
                    found.append(("C15:loop_order", f"{mode}: the result depends on the iteration order of the parallel "
                                                    f"likelihood loop ({style})", dict(kind="prange", case=c, base=case)))
                    break
        else:
            import numba
            for nt in (1, 2, 4, 8, 16):
                numba.set_num_threads(nt)
                o2, s2 = summarise(case, seed, kernel=False)
                rec["sim_runs"] += 1
                rec.probe("jit_thread_count_runs")
                if s2["digest"] != s["digest"] or [x["table"] for x in s2["rounds"]] != [x["table"] for x in s["rounds"]]:
                    found.append(("C15:thread_count", f"JIT: result with {nt} threads differs from the result with 16 "
                                                      f"threads", dict(kind="threads", case=case, threads=nt)))
                    break
            numba.set_num_threads(16)
        for key, detail, rp in found:
            rec["findings"].append(finding("C15", key, detail, rp, extra=dict(event_digest=out.event_digest)))
        rec["sig"] = [mode] + (trace.history_signature(out) if out.ok else ["raised", out.exc[0]])
        rec["nontrivial"] = out.ok and trace.rounds(out) >= 1
        rec["sample"] = dict(mode=mode, case=workload.brief(case), ok=out.ok,
                             rounds=[dict(labels=x["labels"][:12], cost=x["cost"]) for x in s["rounds"][:2]])
        return rec

    # parent side ----------------------------------------------------------
    def cross_check(self, records):
        by_idx = {}
        for r in records:
            if "summary" in r:
                by_idx.setdefault(r["idx"], {})[r["mode"]] = r
        findings = []
        counters = {}
        seen = set()
        compared = 0
        for idx, modes in sorted(by_idx.items()):
            base_mode = "nojit" if "nojit" in modes else sorted(modes)[0]
            for m in sorted(modes):
                if m == base_mode:
                    continue
                a, b = modes[base_mode], modes[m]
                compared += 1
                for key, detail in compare(a["case"], a["seed"], a["summary"], b["summary"], base_mode, m, counters):
                    if key in seen:
                        continue
                    seen.add(key)
                    f = finding("C15", key, detail, dict(kind="cross", case=a["case"], seed=a["seed"], modes=[base_mode, m]))
                    f["mode"] = base_mode
                    findings.append(f)
        # fold counters into one of the records so they reach the evidence
        for r in records:
            if "summary" in r:
                r.setdefault("probes", {})
                r["probes"]["mode_pairs_compared"] = compared
                for k, v in counters.items():
                    r["probes"][k] = v
                break
        for r in records:
            r.pop("summary", None)
            r.pop("case", None)
        return findings

    def replay(self, rp):
        case = rp["case"]
        if rp["kind"] == "prange":
            o1, s1 = summarise(rp["base"], rp["base"]["seed"])
            o2, s2 = summarise(case, case["seed"])
            if s2["digest"] != s1["digest"] or [x["table"] for x in s2["rounds"]] != [x["table"] for x in s1["rounds"]]:
                return [finding("C15", "C15:loop_order", "result depends on the iteration order of the parallel loop", rp,
                                extra=dict(event_digest=o2.event_digest))]
            return []
        if rp["kind"] == "threads":
            import numba
            numba.set_num_threads(16)
            o1, s1 = summarise(case, case["seed"])
            numba.set_num_threads(rp["threads"])
            o2, s2 = summarise(case, case["seed"])
            numba.set_num_threads(16)
            if s2["digest"] != s1["digest"] or [x["table"] for x in s2["rounds"]] != [x["table"] for x in s1["rounds"]]:
                return [finding("C15", "C15:thread_count", f"result with {rp['threads']} threads differs", rp)]
            return []
        # cross-mode: this interpreter runs modes[0]; the other mode runs in a child interpreter
        ma, mb = rp["modes"]
        if core.current_mode() != ma:
            raise core.HarnessError(f"cross-mode replay must start in mode {ma}")
        o1, s1 = summarise(case, rp["seed"])
        tmp = os.path.join(os.environ.get("TICCSIM_OUT", core.VERIF_ROOT), ".work", f"c15-replay-{os.getpid()}.json")
        os.makedirs(os.path.dirname(tmp), exist_ok=True)
        with open(tmp, "w") as fh:
            json.dump(dict(case=case, seed=rp["seed"]), fh)
        try:
            p = subprocess.run([sys.executable, "-m", "ticcsim.props.C15", tmp], env=core.mode_env(mb),
                               cwd=core.VERIF_ROOT, capture_output=True, text=True, timeout=600)
        finally:
            os.unlink(tmp)
        s2 = None
        for line in p.stdout.splitlines():
            if line.startswith("SUMMARY "):
                s2 = json.loads(line[len("SUMMARY "):])
        if s2 is None:
            raise core.HarnessError("child interpreter gave no summary: " + (p.stdout + p.stderr)[-400:])
        return [finding("C15", k, d, rp, extra=dict(event_digest=o1.event_digest))
                for k, d in compare(case, rp["seed"], s1, s2, ma, mb)]


PROP = C15()

if __name__ == "__main__":
    from ticcsim.props import C15 as _self      # avoid the __main__ double-load trap
    spec = json.load(open(sys.argv[1]))
    core.load_fast_ticc()
    _o, _s = _self.summarise(spec["case"], spec["seed"])
    print("SUMMARY " + json.dumps(_s))
