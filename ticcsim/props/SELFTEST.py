"""Determinism self-test of the simulator (not a property check).

The same seeds are executed (a) twice in one process, (b) in fresh interpreters with
other PYTHONHASHSEED values, (c) with 16 workers and with 2 workers (different stripes,
different process histories); the full-trace digests must agree everywhere."""

from .. import core, runner, trace, workload
from .base import Prop, Record, finding
from .C20 import C20, EXCS


def full_digest(out):
    """Digest over everything the simulator recorded: events, phase snapshots, tasks, result."""
    phases = []
    for p in out.sim.phases:
        item = [p["name"], p["occ"], p["round"], p.get("exc")]
        for key in ("in", "in_after", "in_final"):
            for i, s in sorted((p.get(key) or {}).items()):
                item.append(_state(s))
        for key in ("out", "out_final"):
            if key in p:
                item.append(_state(p[key]))
        if "ret" in p:
            item.append(p["ret"])
        item.append([a for a in p.get("args", [])])
        item.append(p.get("kwds"))
        phases.append(item)
    tasks = [[t["cov_digest"], t["round"], t["theta"], t.get("exc")] for t in out.sim.tasks]
    events = [[e["kind"], e.get("pool"), e.get("task"), e.get("worker"), e.get("name"), e.get("occ")]
              for e in out.sim.events]
    return core.digest([events, phases, tasks, out.fields, out.exc, list(out.sim.chooser.log),
                        out.sim.donor_draws, out.pool_states])


def _state(s):
    return [s["labels"], s["cost"], [[c["members"], c["mean"], c["emp"], c["mrf"], c["ccov"], c["logdet"], c["inv"]]
                                     for c in s["clusters"]]]


class SelfTest(Prop):
    id = "SELFTEST"
    level = "other"
    rule = "determinism self-test: full-trace digests of seeded simulated runs across repetitions, interpreters, hash seeds and worker counts"

    def plan(self, tier):
        n = 192 if tier == "quick" else 1600
        return {"nojit": dict(count=n, workers=16, seed_tag="all", hashseed="0"),
                "h1": dict(mode="nojit", count=n, workers=16, seed_tag="all", hashseed="12345"),
                "w2": dict(mode="nojit", count=n // 4, workers=2, seed_tag="all", hashseed="777"),
                "_soft_deadline": 200 if tier == "quick" else 1500}

    def run_case(self, idx, seed, tier, mode):
        rec = Record()
        r = core.rng(seed, "self")
        case = workload.gen_case("SELF", seed, lambda_forms=("float", "matrix_sym"),
                                 beta_forms=("int", "float", "vector_rand"), mmc_values=(0, 1e-3))
        case["pool"]["prange"] = r.choice([None, "shuffle"])
        out = runner.execute(case)
        rec.absorb(out)
        d1 = full_digest(out)
        # a fault somewhere in the run, too
        if out.ok and r.random() < 0.5:
            pts = C20.fault_points(None, out, r)
            if pts:
                case = workload.clone(case)
                case["faults"] = [r.choice(pts)]
                out = runner.execute(case)
                rec.absorb(out)
                d1 = full_digest(out)
        out2 = runner.execute(case)
        d2 = full_digest(out2)
        rec["trace_digest"] = d1
        if d1 != d2:
            rec["findings"].append(finding("SELFTEST", "SELFTEST:repeat", "two executions of one case in one process "
                                           "have different full-trace digests", case))
        rec["sig"] = [seed % 10 ** 9]
        rec["nontrivial"] = True
        rec["sample"] = dict(case=workload.brief(case), digest=d1)
        return rec

    def cross_check(self, records):
        by = {}
        for r in records:
            if "trace_digest" in r:
                by.setdefault(r["idx"], set()).add(r["trace_digest"])
        bad = [i for i, s in by.items() if len(s) > 1]
        compared = sum(1 for s in by.values() if True)
        for r in records:
            if "trace_digest" in r:
                r.setdefault("probes", {})["seeds_compared_across_interpreters"] = compared
                r["probes"]["seeds_run_in_3_interpreter_groups"] = sum(
                    1 for i in by if sum(1 for q in records if q.get("idx") == i and "trace_digest" in q) >= 3)
                break
        if bad:
            f = finding("SELFTEST", "SELFTEST:cross_interpreter",
                        f"{len(bad)} seed(s) have different full-trace digests in different interpreters / hash seeds / "
                        f"worker counts, e.g. idx {bad[:5]}", dict(idx=bad[:5]))
            return [f]
        return []

    def replay(self, case):
        if "idx" in case:
            return [finding("SELFTEST", "SELFTEST:cross_interpreter", "cross-interpreter divergence (see evidence)", case)]
        a, b = full_digest(runner.execute(case)), full_digest(runner.execute(case))
        return [finding("SELFTEST", "SELFTEST:repeat", "digests differ", case)] if a != b else []


PROP = SelfTest()
