"""C20 - failures surface as exceptions, never as a partial result.

Fault enumeration: a clean traced run of a sampled configuration defines the finite
set of fault points - every (round, cluster) optimiser task (before / after the real
solver ran / unpicklable result) and every (phase, occurrence) boundary (before /
after).  Each point is then exercised in turn under a random SimPool schedule; a
subset again under the real fork pool."""

import signal

from .. import core, runner, simpool, trace, workload
from .base import Prop, Record, finding, freeze_decisions, safe
from .C14 import fingerprint

EXCS = ["ValueError", "LinAlgError", "FloatingPointError", "MemoryError", "InjectedFault"]


class RealPoolHang(BaseException):
    pass


def _alarm(signum, frame):
    raise RealPoolHang()


def judge_failed_call(out, expect_type=None, expect_msg=None, real=False):
    """Post-conditions of a call that must have failed."""
    f = []
    if out.ok:
        f.append(("C20:returned_result", "the call returned a result although a fault was injected / the input was invalid"))
        return f
    if out.exc[0] == "SimDeadlock":
        f.append(("C20:hang", f"the call would hang: {out.exc[1][:200]}"))
        return f
    if expect_type is not None and out.exc[0] != expect_type:
        f.append(("C20:wrong_exception", f"raised {out.exc[0]}({out.exc[1][:120]!r}), expected {expect_type}"))
    elif expect_msg is not None and expect_msg not in out.exc[1]:
        f.append(("C20:wrong_message", f"raised {out.exc[0]}({out.exc[1][:160]!r}), message should contain {expect_msg!r}"))
    if real:
        if out.children_after:
            f.append(("C20:worker_left_behind", f"child processes alive after the failing call: {out.children_after}"))
    else:
        if out.sim.deadlocks:
            f.append(("C20:hang", "a deadlock occurred inside the pool during the failing call"))
        if not out.pools_released:
            f.append(("C20:pool_not_released", f"worker pool state at the instant the call raised: {out.pool_states} "
                                               f"(worker processes outlive the failing call)"))
    return f


class C20(Prop):
    id = "C20"
    level = "fault_enumeration"
    rule = ("one case = one sampled base configuration; its clean traced run defines the fault points: every (round, "
            "cluster) optimiser task x {raise before solver, raise after solver, unpicklable result} and every (phase, "
            "occurrence) x {before, after} for init/repopulate/statistics/optimise/relabel/BIC/CH/per-point likelihood; "
            "each selected point is run as its own faulted call under a random SimPool schedule (all points in thorough, a "
            "seeded third in quick), some again under the real fork pool, plus double faults in one round, natural failures "
            "(no donor) and wrong-front-end inputs; every faulted call is followed by a clean call compared bitwise with the "
            "same call made before. Non-trivial: base run completed >= 1 round and >= 1 injected fault fired. Distinct: by "
            "history signature of the base run + number of fault points.")
    components = dict(Prop.components)
    assumptions = ["a raising task is the fault model; a worker process killed by the OS is out of scope (stock Pool hangs)",
                   "real-pool runs are observations of OS scheduling; their oracles do not depend on the interleaving"]

    def plan(self, tier):
        if tier == "quick":
            return {"nojit": dict(count=64, workers=16), "_soft_deadline": 90}
        return {"nojit": dict(count=2400, workers=16), "_soft_deadline": 1500}

    # ------------------------------------------------------------------
    def base_case(self, seed):
        case = workload.gen_case("C20", seed, limits=(1, 2, 3), K=(2, 4), T=(None, 90),
                                 min_cluster_sizes=(2, 3, 5), lambda_values=(0.11, 0.5, 2.0),
                                 beta_forms=("int", "float", "vector_const"),
                                 lambda_forms=("float", "float", "matrix_const"))
        return case

    def follow_case(self, seed):
        c = workload.gen_case("C20f", seed, N=(1, 2), W=(1, 2), K=(2, 3), T=(None, 40), limits=(2,),
                              lambda_values=(0.5,), front_joint_p=0.3, max_series=2)
        c["pool"]["cold_cache"] = False
        return c

    def fault_points(self, clean, r):
        pts = []
        for i, t in enumerate(clean.sim.tasks):
            if t["cov_digest"] is None:
                continue
            for when in ("before", "after", "unpicklable"):
                pts.append(dict(kind="task_raise", cov=t["cov_digest"], when=when, exc=r.choice(EXCS),
                                msg=f"injected task fault r{t['round']} #{i}", round=t["round"], index=i))
        occ = {}
        for p in clean.sim.phases:
            if p["name"] in runner.FAULTABLE_PHASES:
                o = occ.get(p["name"], 0)
                occ[p["name"]] = o + 1
                for when in ("before", "after"):
                    pts.append(dict(kind="phase_raise", phase=p["name"], occ=o, when=when, exc=r.choice(EXCS),
                                    msg=f"injected fault {when} {p['name']}#{o}"))
        return pts

    def faulted(self, base, pts, seed, tag, r, real=False):
        c = workload.clone(base)
        c["faults"] = [dict(p) for p in pts]
        c["mp_switch"] = True
        c["args"]["num_processors"] = r.randint(1, 8) if not real else r.randint(1, 4)
        if real:
            c["pool"] = dict(kind="real", sched_seed=0, bias="fifo", eager_pickle_p=1.0, cold_cache=False,
                             choices=[], direct=False)
        else:
            c["pool"] = dict(kind="sim", sched_seed=core.H(seed, "fsched", tag),
                             bias=r.choice(["fifo", "lifo", "uniform"]), eager_pickle_p=r.choice([0.0, 0.5, 1.0]),
                             cold_cache=r.random() < 0.3, choices=None, direct=False)
        return c

    def burst_case(self, follow, r):
        """Every optimisation task fails at once, on the real pool: the shape in which clean-up code races with the
        pool's own task hand-over (observation, not simulation)."""
        c = workload.clone(follow)
        c["mp_switch"] = True
        c["args"]["num_processors"] = r.randint(2, 3)
        c["args"]["num_clusters"] = 3
        c["pool"] = dict(kind="real", sched_seed=0, bias="fifo", eager_pickle_p=1.0, cold_cache=False,
                         choices=[], direct=False)
        c["faults"] = [dict(kind="task_raise", cov="*", when="before", exc="ValueError", msg="injected burst fault",
                            sticky=True)]
        return c

    def run_burst(self, c, n):
        """n failing calls in a row; returns [(key, detail)]."""
        for i in range(n):
            outer_left = signal.getitimer(signal.ITIMER_REAL)[0]
            old = signal.signal(signal.SIGALRM, _alarm)
            signal.setitimer(signal.ITIMER_REAL, 60)
            try:
                out = runner.run_call(c, record=False)
            except RealPoolHang:
                runner.abandon_call()
                return [("C20:hang_realpool_burst", f"call {i + 1} of a burst of calls whose optimisation tasks all fail at once "
                                                    f"did not return within 60 s under the real pool")]
            finally:
                signal.setitimer(signal.ITIMER_REAL, 0)
                signal.signal(signal.SIGALRM, old)
                if outer_left > 0:
                    signal.setitimer(signal.ITIMER_REAL, max(1.0, outer_left - 1))
            f = judge_failed_call(out, "ValueError", "injected burst fault", real=True)
            if f:
                return f
        return []

    def run_faulted(self, c, follow, fp_follow):
        """Returns (out, findings[(key, detail)])."""
        real = c["pool"]["kind"] == "real"
        pts = c["faults"]
        if real:
            # nested inside the worker's per-case wall cap: keep its remaining time
            outer_left = signal.getitimer(signal.ITIMER_REAL)[0]
            old = signal.signal(signal.SIGALRM, _alarm)
            signal.setitimer(signal.ITIMER_REAL, 120)
        try:
            out = runner.run_call(c, record=False)
        except RealPoolHang:
            runner.abandon_call()
            return None, [("C20:hang_realpool", "the call did not return within 120 s under the real pool")]
        finally:
            if real:
                signal.setitimer(signal.ITIMER_REAL, 0)
                signal.signal(signal.SIGALRM, old)
                if outer_left > 0:
                    signal.setitimer(signal.ITIMER_REAL, max(1.0, outer_left - 1))
        f = []
        if pts:
            kinds = {p["kind"] for p in pts}
            fired = sum(out.sim.fault_fired.values()) if not real else None
            if fired == 0:
                return out, None      # fault point not reached: nothing to judge
            first = pts[0]
            if len(pts) == 1:
                if first.get("when") == "unpicklable":
                    et, em = "MaybeEncodingError", None
                else:
                    et, em = first["exc"], first["msg"] if first["exc"] != "KeyError" else None
                f += judge_failed_call(out, et, em, real)
            else:
                f += judge_failed_call(out, None, None, real)
                if not out.ok and out.exc[0] not in {p["exc"] for p in pts} | {"MaybeEncodingError"}:
                    f.append(("C20:wrong_exception", f"raised {out.exc[0]}, none of the injected {[p['exc'] for p in pts]}"))
        # a subsequent call behaves as if the failed call had not happened
        out2 = runner.run_call(follow, record=False)
        fp = fingerprint(out2)
        if fp != fp_follow:
            f.append(("C20:stale_state", f"clean call after the failed call differs from the same call made before: "
                                         f"{fp_follow} vs {fp}"))
        return out, f

    def run_case(self, idx, seed, tier, mode):
        rec = Record()
        r = core.rng(seed, "C20", "plan")
        base = self.base_case(seed)
        follow = self.follow_case(seed)
        fo = runner.run_call(follow, record=False)
        fp_follow = fingerprint(fo)
        rec.absorb(fo)
        clean = runner.execute(base)
        rec.absorb(clean)
        jobs = []      # (tag, case, expectation)
        if clean.ok:
            pts = self.fault_points(clean, r)
            n_points = len(pts)
            chosen = list(range(len(pts)))
            if tier == "quick":
                r.shuffle(chosen)
                chosen = sorted(chosen[:max(3, len(pts) // 3)])
            for i in chosen:
                jobs.append((f"pt{i}", self.faulted(base, [pts[i]], seed, i, r)))
            # two tasks of one round fail; failure with tasks still queued comes from the schedule
            tasks_by_round = {}
            for p in pts:
                if p["kind"] == "task_raise" and p["when"] == "before":
                    tasks_by_round.setdefault(p["round"], []).append(p)
            for rnd, ps in sorted(tasks_by_round.items()):
                if len(ps) >= 2 and r.random() < (0.5 if tier == "quick" else 1.0):
                    two = r.sample(ps, 2)
                    jobs.append((f"double{rnd}", self.faulted(base, two, seed, f"d{rnd}", r)))
            # real pool subset
            nreal = 1 if tier == "quick" else 2
            for i in r.sample(chosen, min(nreal, len(chosen))):
                if pts[i].get("when") == "unpicklable":
                    continue
                jobs.append((f"real{i}", self.faulted(base, [pts[i]], seed, f"real{i}", r, real=True)))
        else:
            n_points = 0
            rec.probe("base_raised_" + clean.exc[0])
            # a natural failure: same post-conditions
            for key, detail in judge_failed_call(clean):
                rec["findings"].append(finding("C20", key, "natural failure " + clean.exc[0] + ": " + detail,
                                               dict(kind="natural", case=freeze_decisions(base, clean), follow=follow)))
        fired_total = 0
        for tag, c in jobs:
            out, f = safe(lambda: self.run_faulted(c, follow, fp_follow), rec, "faulted run") or (None, None)
            if out is not None:
                rec.absorb(out)
                rec["sim_runs"] += 1
            if f is None:
                rec.probe("fault_point_not_reached")
                continue
            fired_total += 1
            if c["pool"]["kind"] == "real":
                rec.probe("real_pool_fault_runs")
                rec["faults"]["real_pool_task_or_phase_fault"] = rec["faults"].get("real_pool_task_or_phase_fault", 0) + 1
            if tag.startswith("double"):
                rec.probe("two_tasks_failed_in_one_round")
            if out is not None and c["pool"]["kind"] == "sim":
                ev = out.sim.events
                if any(e["kind"] == "terminate" and e.get("queued", 0) > 0 for e in ev):
                    rec.probe("failure_with_tasks_still_queued")
            for key, detail in f:
                rp = dict(kind="fault", case=freeze_decisions(c, out) if out is not None and c["pool"]["kind"] == "sim" else c,
                          follow=follow)
                rec["findings"].append(finding("C20", key, f"[{tag} {c['faults']}] {detail}", rp))
        # real-pool burst: all tasks of a round fail at once, several calls in a row
        if r.random() < (0.6 if tier == "quick" else 0.5):
            bc = self.burst_case(follow, r)
            nb = 10 if tier == "quick" else 16
            bf = safe(lambda: self.run_burst(bc, nb), rec, "burst") or []
            rec.probe("real_pool_burst_calls", nb)
            rec["faults"]["real_pool_all_tasks_fail_at_once"] = rec["faults"].get("real_pool_all_tasks_fail_at_once", 0) + nb
            for key, detail in bf:
                rec["findings"].append(finding("C20", key, detail, dict(kind="burst", case=bc, follow=follow, n=300)))
        # natural failures and invalid inputs
        for kind in ("no_donor", "partial_donor", "wrong_front"):
            c = workload.clone(base)
            if kind == "partial_donor":
                # everything collapses into one cluster of T points; K-1 = 3 refills are needed but the single donor
                # (2m <= T < 4m) can serve only one or two
                t_st = workload.stacked_points(c)
                c["args"]["num_clusters"] = 4
                c["args"]["min_cluster_size"] = max(1, t_st // 3)
                c["args"]["label_switching_cost"] = dict(form="float", value=1e6, seed=0)
                c["args"]["iteration_limit"] = 5
            elif kind == "no_donor":
                c["args"]["min_cluster_size"] = 5000
                c["args"]["label_switching_cost"] = dict(form="float", value=1e6, seed=0)
                c["args"]["iteration_limit"] = 5
            else:
                c["wrong_front"] = True
            c["faults"] = []
            out = runner.run_call(c, record=False)
            rec.absorb(out)
            if kind in ("no_donor", "partial_donor"):
                # is this really the scenario?  (the recorded history says whether a repopulation was attempted
                # with insufficient refill capacity)
                tr = runner.run_call(c, record=True)
                from ..machines import c08_run
                from ..reference import repop_capacity
                short = False
                for p in trace.phases(tr, "repopulate"):
                    s_in = trace.first_state(p)
                    sz = trace.sizes(s_in)
                    needy = sum(1 for x in sz if x < 2)
                    if needy and repop_capacity(sz, c["args"]["min_cluster_size"]) < needy:
                        short = True
                if not short:
                    rec.probe(kind + "_not_triggered")
                    continue
            f = self.judge_natural(c, kind, out)
            rec["faults"][kind] = rec["faults"].get(kind, 0) + 1
            out2 = runner.run_call(follow, record=False)
            if fingerprint(out2) != fp_follow:
                f.append(("C20:stale_state", f"clean call after a {kind} failure differs from the same call made before"))
            for key, detail in f:
                rec["findings"].append(finding("C20", key, f"[{kind}] {detail}",
                                               dict(kind=kind, case=c, follow=follow)))
        rec["sig"] = (trace.history_signature(clean) if clean.ok else ["raised", clean.exc[0]]) + [n_points]
        rec["nontrivial"] = clean.ok and trace.rounds(clean) >= 1 and fired_total >= 1
        rec["sample"] = dict(base=workload.brief(base), fault_points=n_points,
                             exercised=[(t, c["faults"], c["pool"]["kind"]) for t, c in jobs][:6])
        rec.probe("fault_points_total", n_points)
        rec.probe("fault_points_exercised", len(jobs))
        return rec

    def judge_natural(self, c, kind, out):
        if kind in ("no_donor", "partial_donor"):
            return judge_failed_call(out, "RuntimeError", "donor")
        # the data of this case's front end was given to the OTHER front end
        name = "ticc_joint_labels" if c["front"] == "joint" else "ticc_labels"
        return judge_failed_call(out, "TypeError", name)

    # ------------------------------------------------------------------
    def replay(self, rp):
        follow = rp["follow"]
        fo = runner.run_call(follow, record=False)
        fp_follow = fingerprint(fo)
        c = rp["case"]
        if rp["kind"] == "burst":
            f = self.run_burst(c, rp.get("n", 300))
            return [finding("C20", key, detail, rp) for key, detail in f]
        if rp["kind"] == "fault":
            out, f = self.run_faulted(c, follow, fp_follow)
            f = f or []
        else:
            out = runner.run_call(c, record=False)
            if rp["kind"] == "natural":
                f = judge_failed_call(out)
            else:
                f = self.judge_natural(c, rp["kind"], out)
            out2 = runner.run_call(follow, record=False)
            if fingerprint(out2) != fp_follow:
                f.append(("C20:stale_state", "clean call after the failure differs"))
        return [finding("C20", key, detail, rp, extra=dict(event_digest=out.event_digest if out else None))
                for key, detail in f]


PROP = C20()
