"""Common machinery for property checks: records, findings, minimisation."""

import copy
import traceback

from .. import core, runner, workload


def finding(prop, key, detail, case, extra=None):
    """A violated oracle.  `key` identifies *which* oracle/deviation failed (used for
    known-finding matching and for 'same violation' during minimisation/replay)."""
    return dict(property=prop, key=key, detail=str(detail)[:600], case=case, extra=extra or {})


class Record(dict):
    """What one evaluated case reports back to the batch runner."""

    def __init__(self, **kw):
        super().__init__(sig=None, nontrivial=False, findings=[], probes={}, faults={},
                         skips={}, sample=None, events=0, sim_runs=0, harness=[])
        self.update(kw)

    def probe(self, name, n=1):
        self["probes"][name] = self["probes"].get(name, 0) + n

    def skip(self, name, n=1):
        self["skips"][name] = self["skips"].get(name, 0) + n

    def reach(self, name, item):
        self.setdefault("sets", {}).setdefault(name, [])
        if item not in self["sets"][name]:
            self["sets"][name].append(item)

    def absorb(self, out):
        """Fold the counters of an Outcome into this record."""
        self["sim_runs"] += 1
        ev = [(e["kind"][0], e.get("task"), e.get("worker")) for e in out.sim.events
              if e["kind"] in ("start", "finish")]
        if ev:
            # interleaving signature: order of start/finish events per round, task ids relative to the round's first
            sig, cur, base = [], [], None
            for k, t, w in ev:
                cur.append(f"{k}{t}w{w}")
            self.reach("pool_event_orders", str(hash(tuple(cur)) % (10 ** 12)))
        ph = [p["name"][:4] + ("!" if p.get("exc") else "") for p in out.sim.phases
              if p["name"] in ("repopulate", "statistics", "optimise", "relabel")]
        if ph:
            self.reach("phase_histories", str(hash(tuple(ph)) % (10 ** 12)))
        for f in out.sim.faults:
            if f.get("fired"):
                self.reach("fault_points", f"{f['kind']}:{f.get('phase', 'task')}:{f.get('when')}:{f.get('round', f.get('occ'))}:{f.get('exc')}")
        self["events"] += len(out.sim.events)
        for k, v in out.sim.probes.items():
            self.probe(k, v)
        for k, v in out.sim.fault_fired.items():
            self["faults"][k] = self["faults"].get(k, 0) + v


class Prop:
    id = None
    level = "exploration"
    modes = ("nojit",)
    rule = ""
    components = dict(
        real=["all of fast_ticc (front ends, stacking, GMM init via scikit-learn, repopulation, "
              "statistics, ADMM solver, likelihood + Viterbi kernels, metrics)", "NumPy/LAPACK",
              "scikit-learn", "pickle"],
        stub=["process pool (SimPool)", "stdout"],
    )
    assumptions = []

    def plan(self, tier):
        """mode -> number of cases."""
        raise NotImplementedError

    def run_case(self, idx, seed, tier, mode):
        raise NotImplementedError

    def replay(self, case):
        """Re-execute a replay case; returns the list of findings."""
        raise NotImplementedError

    # -- helpers -----------------------------------------------------------
    def minimise(self, case, key, budget=30):
        """Greedy bounded minimisation: keep a simplification only while the same
        oracle key still fails."""
        def fails(c):
            try:
                return any(f["key"] == key for f in self.replay(c))
            except core.HarnessError:
                return False
            except Exception:
                return False
        best = case
        for cand in simplifications(case):
            if budget <= 0:
                break
            budget -= 1
            c = cand(best)
            if c is None:
                continue
            if fails(c):
                best = c
        return best


def simplifications(case):
    """Yield functions case -> simpler case (or None when not applicable)."""
    def drop_history(c):
        if not c.get("history"):
            return None
        c = copy.deepcopy(c)
        c["history"] = []
        return c

    def fifo(c):
        if c["pool"].get("choices") == [] and c["pool"].get("bias") == "fifo":
            return None
        c = copy.deepcopy(c)
        c["pool"]["choices"] = []
        c["pool"]["bias"] = "fifo"
        return c

    def eager(c):
        if c["pool"].get("eager_pickle_p") == 1.0 and not c["pool"].get("cold_cache"):
            return None
        c = copy.deepcopy(c)
        c["pool"]["eager_pickle_p"] = 1.0
        c["pool"]["cold_cache"] = False
        return c

    def plain_donor(c):
        if c["donor"]["mode"] == "plain":
            return None
        c = copy.deepcopy(c)
        c["donor"]["mode"] = "plain"
        c["donor"]["draws"] = None
        return c

    def no_mp(c):
        if not c.get("mp_switch") and c["args"]["num_processors"] == 1:
            return None
        c = copy.deepcopy(c)
        c["mp_switch"] = False
        c["args"]["num_processors"] = 1
        return c

    def no_knobs(c):
        keys = [k for k in ("const_sensor", "dup_rows", "layout", "dtype", "shift") if k in c["data"]]
        if not keys:
            return None
        c = copy.deepcopy(c)
        for k in keys:
            del c["data"][k]
        return c

    def one_series(c):
        if c["front"] != "joint" or len(c["data"]["lengths"]) <= 1 or c.get("faults"):
            return None
        c = copy.deepcopy(c)
        c["data"]["lengths"] = c["data"]["lengths"][:1]
        return c

    def fewer_clusters(c):
        if c["args"]["num_clusters"] <= 2 or c.get("faults"):
            return None
        c = copy.deepcopy(c)
        c["args"]["num_clusters"] -= 1
        return c

    def shorter(c):
        if c.get("faults"):
            return None
        w, k = c["args"]["window_size"], c["args"]["num_clusters"]
        lo = w + k + 2
        if all(x <= lo + 8 for x in c["data"]["lengths"]):
            return None
        c = copy.deepcopy(c)
        c["data"]["lengths"] = [max(lo + 8, x // 2) for x in c["data"]["lengths"]]
        return c

    def smaller_w(c):
        if c["args"]["window_size"] <= 1 or c.get("faults"):
            return None
        if c["args"]["sparsity_weight"]["form"].startswith("matrix") or \
                c["args"]["label_switching_cost"]["form"].startswith("vector"):
            pass
        c = copy.deepcopy(c)
        c["args"]["window_size"] -= 1
        return c

    def smaller_n(c):
        if c["data"]["N"] <= 1 or c.get("faults"):
            return None
        c = copy.deepcopy(c)
        c["data"]["N"] -= 1
        for k in ("scale_exp", "shift"):
            if k in c["data"]:
                c["data"][k] = c["data"][k][:c["data"]["N"]]
        if c["data"].get("const_sensor") is not None and c["data"]["const_sensor"] >= c["data"]["N"]:
            del c["data"]["const_sensor"]
        return c

    def lower_limit(c):
        if c["args"]["iteration_limit"] <= 1 or c.get("faults"):
            return None
        c = copy.deepcopy(c)
        c["args"]["iteration_limit"] = max(1, c["args"]["iteration_limit"] // 2)
        return c

    return [drop_history, fifo, eager, plain_donor, no_mp, no_knobs, one_series,
            fewer_clusters, fewer_clusters, shorter, shorter, smaller_w, smaller_w,
            smaller_n, lower_limit, lower_limit]


def freeze_decisions(case, out):
    """Turn a case into its replay form: the decisions actually taken are written in
    (scheduler choices, donor draws) so that replay does not depend on PRNG streams."""
    c = copy.deepcopy(case)
    c["pool"]["choices"] = list(out.sim.chooser.log)
    if c["donor"]["mode"] == "adversarial":
        c["donor"]["draws"] = [list(d) for d in out.sim.donor_draws]
    return c


def safe(fn, rec, what):
    """Run an oracle; an exception inside it is harness trouble, never a violation."""
    try:
        return fn()
    except core.HarnessError as e:
        rec["harness"].append(f"{what}: {e}")
    except Exception:
        rec["harness"].append(f"{what}: {traceback.format_exc()[-800:]}")
    return None
