"""Worker interpreter: evaluates a stripe of cases of one property in one execution
mode (fixed at interpreter start), or re-executes one replay file."""

import argparse
import faulthandler
import importlib
import json
import os
import signal
import sys
import time
import traceback

import numpy as np


def _default(o):
    if isinstance(o, np.ndarray):
        return o.tolist()
    if isinstance(o, (np.integer,)):
        return int(o)
    if isinstance(o, (np.floating,)):
        return float(o)
    if isinstance(o, (np.bool_,)):
        return bool(o)
    if isinstance(o, bytes):
        return o.hex()
    return repr(o)


def dumps(obj):
    return json.dumps(obj, default=_default, sort_keys=True)


def get_prop(pid):
    try:
        mod = importlib.import_module(f"ticcsim.props.{pid}")
        return mod.PROP
    except ModuleNotFoundError as e:
        if e.name != f"ticcsim.props.{pid}":
            raise
    from .props import traced_props
    return traced_props.REGISTRY[pid]


class CaseTimeout(BaseException):
    """A single case exceeded its wall cap (machine under load, or an unusually expensive configuration)."""


def _on_alarm(signum, frame):
    raise CaseTimeout()


def main(argv=None):
    ap = argparse.ArgumentParser()
    ap.add_argument("--prop")
    ap.add_argument("--tier", default="quick")
    ap.add_argument("--base-seed", type=int, default=0)
    ap.add_argument("--stripe", default="0/1")
    ap.add_argument("--count", type=int, default=0)
    ap.add_argument("--out")
    ap.add_argument("--soft-deadline", type=float, default=0.0)
    ap.add_argument("--replay")
    ap.add_argument("--offset", type=int, default=0)
    ap.add_argument("--seed-tag", default=None)
    ap.add_argument("--corpus", action="store_true")
    ap.add_argument("--case-cap", type=float, default=900.0)
    a = ap.parse_args(argv)
    faulthandler.enable()
    from . import core
    mode = core.current_mode()

    if a.replay:
        with open(a.replay) as f:
            rp = json.load(f)
        prop = get_prop(rp["property"])
        core.load_fast_ticc()
        findings = prop.replay(rp["case"])
        same = [f for f in findings if f["key"] == rp["key"]]
        res = dict(reproduced=bool(same), keys=sorted({f["key"] for f in findings}),
                   detail=same[0]["detail"] if same else None,
                   digest=same[0]["extra"].get("event_digest") if same else None)
        print("REPLAY-RESULT " + dumps(res))
        return 1 if same else 0

    prop = get_prop(a.prop)
    core.load_fast_ticc()
    if a.corpus:
        # regression corpus: replay files of violations found on earlier trees; they must not come back
        import glob
        rec = dict(sig=None, nontrivial=False, findings=[], probes={}, faults={}, skips={}, sample=None,
                   events=0, sim_runs=0, harness=[], idx=-2, seed=0, mode=mode, wall=0.0)
        for path in sorted(glob.glob(os.path.join(core.VERIF_ROOT, "corpus", f"{a.prop}-*.json"))):
            with open(path) as f:
                rp = json.load(f)
            if rp.get("mode", "nojit") != mode:
                continue
            try:
                found = prop.replay(rp["case"])
            except Exception:
                rec["harness"].append(f"corpus replay {os.path.basename(path)} crashed: {traceback.format_exc()[-600:]}")
                continue
            rec["probes"]["corpus_replays"] = rec["probes"].get("corpus_replays", 0) + 1
            for f_ in found:
                if f_["key"] == rp["key"]:
                    f_["detail"] = f"[regression corpus {os.path.basename(path)}] " + f_["detail"]
                    rec["findings"].append(f_)
        with open(a.out, "w") as out:
            out.write(dumps(rec) + "\n")
            out.write(dumps(dict(finished=True, done=1, wall=0)) + "\n")
        return 0
    i0, n = (int(x) for x in a.stripe.split("/"))
    t_start = time.time()
    done = 0
    with open(a.out, "w") as out:
        for idx in range(i0, a.count, n):
            if a.soft_deadline and time.time() - t_start > a.soft_deadline:
                out.write(dumps(dict(truncated=True, at=idx)) + "\n")
                break
            seed = core.H(a.base_seed, a.prop, a.seed_tag or mode, idx + a.offset)
            faulthandler.dump_traceback_later(3 * a.case_cap, exit=True)      # hard backstop
            signal.signal(signal.SIGALRM, _on_alarm)
            signal.setitimer(signal.ITIMER_REAL, a.case_cap)
            t0 = time.time()
            try:
                rec = prop.run_case(idx + a.offset, seed, a.tier, mode)
            except CaseTimeout:
                # not a verdict about the code under test: reported as unfinished in the evidence
                from . import runner as _runner
                _runner.abandon_call()
                rec = dict(sig=None, nontrivial=False, findings=[], probes={}, faults={},
                           skips={"unfinished_case_wall_cap": 1}, sample=None, events=0, sim_runs=0, harness=[],
                           unfinished=True)
            except core.HarnessError as e:
                from . import runner as _runner
                _runner.abandon_call()
                rec = dict(sig=None, nontrivial=False, findings=[], probes={}, faults={}, skips={},
                           sample=None, events=0, sim_runs=0, harness=[str(e)[:400]])
            except Exception:
                rec = dict(sig=None, nontrivial=False, findings=[], probes={}, faults={}, skips={},
                           sample=None, events=0, sim_runs=0,
                           harness=[f"run_case crashed: {traceback.format_exc()[-1500:]}"])
            signal.setitimer(signal.ITIMER_REAL, 0)
            faulthandler.cancel_dump_traceback_later()
            rec["idx"] = idx + a.offset
            rec["stripe"] = a.stripe
            rec["seed"] = seed
            rec["mode"] = mode
            rec["wall"] = time.time() - t0
            out.write(dumps(rec) + "\n")
            out.flush()
            done += 1
        out.write(dumps(dict(finished=True, done=done, wall=time.time() - t_start)) + "\n")
    return 0


if __name__ == "__main__":
    sys.exit(main())
