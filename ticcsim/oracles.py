"""Post-run oracles over the recorded history of a simulated run.

Each oracle returns a list of (key, detail) pairs; an empty list means the property
held on this run.  Rules R1-R6 of DESIGN.md section 4 apply: costs not argmins,
derived tolerances, phases judged on what the property names, known deviations are
executable models, non-finite regimes stay with C03/C05/C16, harness trouble is
never a violation.
"""

import math
import numbers

import numpy as np

from . import reference as ref
from . import trace
from .core import HarnessError

EPS = np.finfo(float).eps


# ---------------------------------------------------------------------------
# helpers

def beq(a, b):
    """Bitwise equality of two optional arrays."""
    if a is None or b is None:
        return a is None and b is None
    a, b = np.asarray(a), np.asarray(b)
    return a.shape == b.shape and a.dtype == b.dtype and a.tobytes() == b.tobytes()


def feq(a, b):
    """Bitwise equality of two optional floats (NaN equals NaN)."""
    if a is None or b is None:
        return a is None and b is None
    return np.float64(a).tobytes() == np.float64(b).tobytes()


def finite_state(s):
    for c in s["clusters"]:
        for k in ("mean", "emp", "mrf"):
            if c[k] is not None and not np.all(np.isfinite(c[k])):
                return False
    return True


def _is_logdet_of(value, theta):
    if value is None or theta is None or not np.all(np.isfinite(theta)):
        return False
    sign, ld = np.linalg.slogdet(theta)
    if sign <= 0 or not math.isfinite(value):
        # not positive definite: only the exact value the code itself would store is accepted
        with np.errstate(all="ignore"):
            return feq(value, np.log(sign) + ld)
    n = theta.shape[0]
    kappa = ref.cond_number(theta)
    return abs(value - ld) <= 1e3 * n * EPS * min(kappa, 1e12) + 64 * n * EPS * abs(ld) + 1e-300


def cluster_diff(a, b, r3=True):
    """Names of the fields in which two cluster snapshots differ."""
    d = []
    if a["members"] != b["members"]:
        d.append("members")
    for k in ("mean", "emp", "mrf", "ccov"):
        if not beq(a[k], b[k]):
            d.append(k)
    if not feq(a["logdet"], b["logdet"]):
        # R3: like the scoring alias, the stored log-determinant is a cache of a function of the MRF that the
        # scoring step recomputes; it may be (re)set to a value that IS the log-determinant of the state's MRF
        # within rounding (another factorisation gives another last bit), never to anything else
        if not (r3 and (a["logdet"] is None or _is_logdet_of(b["logdet"], b["mrf"]))):
            d.append("logdet")
    if not beq(a["inv"], b["inv"]):
        # R3: the scoring alias is a cache of the MRF: it may be (re)set to "equal to the MRF"
        if not (r3 and beq(b["inv"], b["mrf"])):
            d.append("inv")
    return d


def state_diff(a, b, r3=True):
    d = []
    if a["labels"] != b["labels"]:
        d.append("labels")
    if not feq(a["cost"], b["cost"]):
        d.append("cost")
    if len(a["clusters"]) != len(b["clusters"]):
        d.append("nclusters")
        return d
    for i, (ca, cb) in enumerate(zip(a["clusters"], b["clusters"])):
        for f in cluster_diff(ca, cb, r3):
            d.append(f"cluster{i}.{f}")
    return d


def ref_stacked(out):
    w = out.case["args"]["window_size"]
    if out.case["front"] == "single":
        return ref.stack(out.data, w)
    return ref.stack_multi(out.data, w)


def user_beta(out):
    return out.kwargs["label_switching_cost"]


def is_spd(theta):
    if theta is None or not np.all(np.isfinite(theta)):
        return False
    try:
        np.linalg.cholesky((theta + theta.T) / 2)
        return True
    except np.linalg.LinAlgError:
        return False


# A comparison of log-densities is skipped as ill-conditioned only when its derived tolerance (which grows with the
# condition number of the MRF) exceeds this absolute cap; below it the comparison is made with that tolerance.
ILL_CAP = 5e-2


def density_tol(nw, mag, kappa):
    """R2 tolerance for one log-density: rounding of the quadratic form and constant (term magnitudes) plus the
    log-determinant, whose legitimate variation between correct factorisations is about n*eps*kappa (an
    eigenvalue-based one loses eps*kappa on the smallest eigenvalue); 30x margin on that."""
    return 64 * nw * nw * EPS * mag + 30 * nw * EPS * kappa


# ---------------------------------------------------------------------------
# C03

def c03(out, rec=None):
    f = []
    eps = out.kwargs["min_meaningful_covariance"]
    eps = float(eps)
    nw = out.case["data"]["N"] * out.case["args"]["window_size"]
    opt = trace.completed(out, "optimise")
    for p in opt:
        for k, c in enumerate(p["out"]["clusters"]):
            th = c["mrf"]
            where = f"round {p['round']} cluster {k}"
            if th is None:
                f.append(("C03:missing", f"{where}: no MRF after optimisation"))
                continue
            if th.shape != (nw, nw) or th.dtype.kind != "f":
                f.append(("C03:shape", f"{where}: MRF shape {th.shape} dtype {th.dtype}"))
                continue
            if eps == 0:
                if not np.all(np.isfinite(th)):
                    f.append(("C03:nonfinite", f"{where}: MRF has non-finite entries"))
                    continue
                scale = np.max(np.abs(th))
                if np.max(np.abs(th - th.T)) > 1e-12 * scale:
                    f.append(("C03:asymmetric", f"{where}: |A-A^T| = {np.max(np.abs(th - th.T)):.3g}"))
                    continue
                if not is_spd(th):
                    ev = np.linalg.eigvalsh((th + th.T) / 2)
                    f.append(("C03:not_pd", f"{where}: min eigenvalue {ev.min():.3g}, max {ev.max():.3g}"))
                    continue
                sign, ld = np.linalg.slogdet(th)
                if c["logdet"] is None or not math.isfinite(c["logdet"]):
                    f.append(("C03:logdet_nonfinite", f"{where}: stored log-determinant {c['logdet']}, "
                                                      f"slogdet gives {ld:.6g}"))
                    continue
                kappa = ref.cond_number(th)
                tol = 1e3 * nw * EPS * kappa + 64 * nw * EPS * abs(ld)
                if tol <= 1e-3 and abs(c["logdet"] - ld) > tol:
                    f.append(("C03:logdet_wrong", f"{where}: stored {c['logdet']!r} vs slogdet {ld!r}"))
            else:
                with np.errstate(invalid="ignore"):
                    small = (np.abs(th) > 0) & (np.abs(th) < eps)
                if np.any(small):
                    f.append(("C03:floor_leak", f"{where}: {int(small.sum())} entries with 0<|x|<eps={eps}"))
    # floor: surviving entries are exactly what the optimiser produced
    if eps > 0:
        for p in opt:
            tasks = [t for t in out.sim.tasks if t["round"] == p["round"] and t["theta"] is not None]
            for k, c in enumerate(p["out"]["clusters"]):
                if c["mrf"] is None or c["emp"] is None:
                    continue
                mine = [t for t in tasks if t["cov_digest"] is not None and beq(t["args"][0], c["emp"])]
                if len(mine) != 1:
                    continue
                raw = reinflate(mine[0]["theta"])
                if raw.shape != c["mrf"].shape:
                    continue
                keep = ~(np.abs(raw) < eps)
                if not beq(raw[keep], c["mrf"][keep]):
                    f.append(("C03:floor_altered", f"round {p['round']} cluster {k}: an entry >= eps differs "
                                                   f"from the optimiser's output"))
                elif np.any(c["mrf"][~keep] != 0):
                    f.append(("C03:floor_leak", f"round {p['round']} cluster {k}: entry below eps survived"))
    # result floats
    if out.ok and eps == 0:
        fl = out.fields
        for name in ("bayesian_information_criterion", "calinski_harabasz_index", "label_assignment_cost",
                     "overall_log_likelihood", "overall_log_likelihood_mean", "overall_log_likelihood_median"):
            v = fl.get(name)
            if v is not None and not np.all(np.isfinite(np.asarray(v, dtype=float))):
                # CH is undefined (0/0) when every cluster is a single point or K-1 == 0; only MRF-driven values count
                if name == "calinski_harabasz_index":
                    continue
                f.append(("C03:result_nonfinite", f"result.{name} = {v}"))
        for name in ("all_log_likelihood", "cluster_log_likelihood_mean", "cluster_log_likelihood_median"):
            v = np.asarray(fl.get(name), dtype=float)
            if v.size and not np.all(np.isfinite(v)):
                f.append(("C03:result_nonfinite", f"result.{name} has non-finite entries"))
        for k, th in enumerate(fl.get("markov_random_fields") or []):
            if not is_spd(np.asarray(th, dtype=float)):
                f.append(("C03:result_mrf_not_pd", f"result.markov_random_fields[{k}] is not finite SPD"))
    return dedupe(f)


def reinflate(compressed):
    n = int(round((math.sqrt(8 * len(compressed) + 1) - 1) / 2))
    m = np.zeros((n, n))
    iu = np.triu_indices(n)
    m[iu] = compressed
    m = m + m.T - np.diag(np.diag(m))
    return m


def dedupe(f):
    seen = set()
    out = []
    for k, d in f:
        if k not in seen:
            seen.add(k)
            out.append((k, d))
    return out


# ---------------------------------------------------------------------------
# C04

def c04(out):
    f = []
    if not out.ok:
        return f
    a = out.case["args"]
    w, k = a["window_size"], a["num_clusters"]
    nw = w * out.case["data"]["N"]
    res = out.result
    front, back = ref.margins(w)
    series = [out.data] if out.case["front"] == "single" else list(out.data)
    lab_lists = [res.point_labels] if out.case["front"] == "single" else res.point_labels
    if out.case["front"] == "joint":
        if not isinstance(lab_lists, (list, tuple)) or len(lab_lists) != len(series):
            return [("C04:series_count", f"{len(lab_lists)} label lists for {len(series)} series")]
    rel = trace.completed(out, "relabel")
    last = rel[-1]["out"]["labels"] if rel else None
    pos = 0
    for j, (s, labs) in enumerate(zip(series, lab_lists)):
        t = s.shape[0]
        labs = list(labs)
        if len(labs) != t:
            f.append(("C04:length", f"series {j}: {len(labs)} labels for {t} rows"))
            continue
        interior = labs[front:t - back] if back else labs[front:]
        if any(x != -1 for x in labs[:front]) or any(x != -1 for x in (labs[t - back:] if back else [])):
            f.append(("C04:margin", f"series {j}: margins are not {front} leading / {back} trailing -1 "
                                    f"(W={w}): head {labs[:front + 1]} tail {labs[t - back - 1:]}"))
            continue
        bad = [x for x in interior if not isinstance(x, numbers.Integral) or isinstance(x, bool)
               or x < 0 or x >= k]
        if bad:
            f.append(("C04:label_range", f"series {j}: interior label {bad[0]!r} not an integer in [0,{k})"))
            continue
        if last is not None:
            want = last[pos:pos + len(interior)]
            if [int(x) for x in interior] != want:
                f.append(("C04:label_leak", f"series {j}: interior labels are not slice [{pos},{pos + len(interior)}) "
                                            f"of the last labelling the loop produced"))
        pos += len(interior)
    if last is not None and pos != len(last) and not f:
        f.append(("C04:length", f"{pos} labels returned for {len(last)} labelled windows"))
    mrfs = res.markov_random_fields
    if len(mrfs) != k:
        f.append(("C04:mrf_count", f"{len(mrfs)} MRFs for K={k}"))
    elif any(np.asarray(m).shape != (nw, nw) for m in mrfs):
        f.append(("C04:mrf_shape", f"MRF shapes {[np.asarray(m).shape for m in mrfs]} != ({nw},{nw})"))
    if res.num_clusters != k or res.window_size != w:
        f.append(("C04:echo", f"num_clusters={res.num_clusters} window_size={res.window_size} vs K={k} W={w}"))
    return dedupe(f)


# ---------------------------------------------------------------------------
# C05

def model_of(state):
    means = [c["mean"] for c in state["clusters"]]
    thetas = [c["mrf"] for c in state["clusters"]]
    return means, thetas


def c05(out, sample_points=None, rec=None):
    f = []
    x = ref_stacked(out)
    nw = x.shape[1]
    # (a) every likelihood table of every round
    for p in trace.completed(out, "ll_table"):
        st = trace.first_state_after(p)
        tab = p["ret"]
        if st is None or not isinstance(tab, np.ndarray):
            continue
        means, thetas = model_of(st)
        if any(m is None or th is None for m, th in zip(means, thetas)):
            continue
        if tab.shape != (x.shape[0], len(thetas)):
            f.append(("C05:table_shape", f"round {p['round']}: table shape {tab.shape}"))
            continue
        for k, (mu, th) in enumerate(zip(means, thetas)):
            if not is_spd(th) or not np.all(np.isfinite(mu)):
                if rec is not None:
                    rec.skip("c05_model_not_spd")
                continue
            kappa = ref.cond_number(th)
            if 30 * nw * EPS * kappa > ILL_CAP:
                # value comparison is ill-conditioned; finiteness still required
                if not np.all(np.isfinite(tab[:, k])):
                    f.append(("C05:nonfinite", f"round {p['round']} cluster {k}: table has non-finite values "
                                               f"although the MRF is SPD (logdet {np.linalg.slogdet(th)[1]:.6g})"))
                elif rec is not None:
                    rec.skip("c05_ill_conditioned")
                continue
            rt, mag = ref.log_density_table(x, [mu], [th])
            tol = density_tol(nw, mag[:, 0], kappa)
            col = tab[:, k]
            if not np.all(np.isfinite(col)):
                f.append(("C05:nonfinite", f"round {p['round']} cluster {k}: table has non-finite values "
                                           f"although the MRF is SPD (logdet {np.linalg.slogdet(th)[1]:.6g})"))
                continue
            err = np.abs(col - rt[:, 0])
            bad = np.nonzero(err > tol)[0]
            if len(bad):
                i = int(bad[0])
                f.append(("C05:table_value", f"round {p['round']} point {i} cluster {k}: table {col[i]!r} vs "
                                             f"reference density {rt[i, 0]!r} (tol {tol[i]:.3g})"))
    if not out.ok:
        return dedupe(f)
    # (b) the result's per-point values and aggregates, under the recorded final model
    fs = trace.final_state(out)
    if fs is None:
        return dedupe(f)
    means, thetas = model_of(fs)
    labels = fs["labels"]
    k = len(thetas)
    usable = all(th is not None and is_spd(th) and np.all(np.isfinite(mu)) and
                 30 * nw * EPS * ref.cond_number(th) <= ILL_CAP
                 for j, (mu, th) in enumerate(zip(means, thetas)) if j in set(labels))
    if not usable:
        if rec is not None:
            rec.skip("c05_final_model_not_usable")
        return dedupe(f)
    vals = np.empty(len(labels))
    tols = np.empty(len(labels))
    kap = {j: ref.cond_number(thetas[j]) for j in set(labels)}
    for i, lab in enumerate(labels):
        v, mag = ref.log_density(x[i], means[lab], thetas[lab])
        vals[i] = v
        tols[i] = density_tol(nw, mag, kap[lab])
    fl = out.fields
    got = np.asarray(fl["all_log_likelihood"], dtype=float)
    if len(got) == len(vals):
        # order-free: compare as multisets, tolerance = the largest per-point tolerance
        a, b = np.sort(got), np.sort(vals)
        tol = float(np.max(tols))
        if not np.all(np.isfinite(got)) or np.max(np.abs(a - b)) > tol:
            i = int(np.argmax(np.abs(a - b)))
            f.append(("C05:point_value", f"per-point log-likelihoods differ from reference densities: "
                                         f"{a[i]!r} vs {b[i]!r} (tol {tol:.3g})"))
    elif rec is not None:
        rec.skip("c05_length_mismatch_left_to_C06")
    tsum = float(np.sum(tols)) + 64 * len(vals) * EPS * float(np.sum(np.abs(vals)))
    if abs(fl["overall_log_likelihood"] - float(np.sum(vals))) > tsum:
        f.append(("C05:overall_sum", f"overall_log_likelihood {fl['overall_log_likelihood']!r} vs reference "
                                     f"sum {float(np.sum(vals))!r} (tol {tsum:.3g})"))
    cm = np.asarray(fl["cluster_log_likelihood_mean"], dtype=float)
    cmed = np.asarray(fl["cluster_log_likelihood_median"], dtype=float)
    lab_arr = np.asarray(labels)
    for j in range(k):
        idx = np.nonzero(lab_arr == j)[0]
        if len(idx) == 0 or j >= len(cm):
            continue
        tol = float(np.max(tols[idx])) * 2 + 64 * len(idx) * EPS * float(np.mean(np.abs(vals[idx])))
        if abs(cm[j] - float(np.mean(vals[idx]))) > tol:
            f.append(("C05:cluster_mean", f"cluster {j} mean {cm[j]!r} vs reference {float(np.mean(vals[idx]))!r}"))
        if abs(cmed[j] - float(np.median(vals[idx]))) > tol:
            f.append(("C05:cluster_median", f"cluster {j} median {cmed[j]!r} vs reference "
                                            f"{float(np.median(vals[idx]))!r}"))
    return dedupe(f)


# ---------------------------------------------------------------------------
# C06

def c06(out, rec=None):
    f = []
    if not out.ok:
        return f
    fs = trace.final_state(out)
    if fs is None:
        raise HarnessError("no relabel phase recorded for a completed run")
    if not finite_state(fs):
        if rec is not None:
            rec.skip("c06_nonfinite_model")
        return f
    fl = out.fields
    labels = fs["labels"]
    t = len(labels)
    k = len(fs["clusters"])
    all_ll = np.asarray(fl["all_log_likelihood"], dtype=float)
    if not np.all(np.isfinite(all_ll)) or not math.isfinite(fl["label_assignment_cost"]):
        if rec is not None:
            rec.skip("c06_nonfinite_values")
        return f
    beta = user_beta(out)
    bounds = trace.boundaries(out.case)
    sw_within = ref.switch_cost(labels, beta, bounds)
    sw_all = ref.switch_cost(labels, beta, ())
    ll = fl["overall_log_likelihood"]
    cost = fl["label_assignment_cost"]
    mag = float(np.sum(np.abs(all_ll))) + float(np.sum(np.abs(ref.beta_vector(beta, t))))
    tol = 64 * (t + 1) * EPS * mag * 4 + 1e-300
    if abs(cost - (-ll + sw_within)) > tol:
        if sw_all != sw_within and abs(cost - (-ll + sw_all)) <= tol:
            f.append(("C06:joint_boundary_priced",
                      f"cost {cost!r} = -LL + switching cost over ALL consecutive pairs ({sw_all!r}); within-series "
                      f"pairs only would give {(-ll + sw_within)!r}"))
        else:
            f.append(("C06:cost_accounting", f"label_assignment_cost {cost!r} != -overall_log_likelihood "
                                             f"({-ll!r}) + within-series switching cost ({sw_within!r}); tol {tol:.3g}"))
    if len(all_ll) != t:
        f.append(("C06:list_length", f"all_log_likelihood has {len(all_ll)} entries for {t} labelled points "
                                     f"(cluster sizes {trace.sizes(fs)})"))
    else:
        s, m, md = float(np.sum(all_ll)), float(np.mean(all_ll)), float(np.median(all_ll))
        tl = 64 * t * EPS * float(np.sum(np.abs(all_ll))) + 1e-300
        if abs(ll - s) > tl:
            f.append(("C06:sum", f"overall_log_likelihood {ll!r} != sum of the list {s!r}"))
        if abs(fl["overall_log_likelihood_mean"] - m) > tl / t + 4 * EPS * abs(m):
            f.append(("C06:mean", f"overall mean {fl['overall_log_likelihood_mean']!r} != mean of the list {m!r}"))
        if abs(fl["overall_log_likelihood_median"] - md) > 4 * EPS * abs(md):
            f.append(("C06:median", f"overall median {fl['overall_log_likelihood_median']!r} != median of list {md!r}"))
    # per-cluster aggregates over exactly that cluster's points (reference values from the recorded model)
    x = ref_stacked(out)
    nw = x.shape[1]
    means, thetas = model_of(fs)
    cm = np.asarray(fl["cluster_log_likelihood_mean"], dtype=float)
    cmed = np.asarray(fl["cluster_log_likelihood_median"], dtype=float)
    if len(cm) != k or len(cmed) != k:
        f.append(("C06:cluster_fields", f"{len(cm)} cluster means / {len(cmed)} medians for K={k}"))
        return dedupe(f)
    lab_arr = np.asarray(labels)
    for j in range(k):
        idx = np.nonzero(lab_arr == j)[0]
        if len(idx) == 0:
            if cm[j] != 0 or cmed[j] != 0:
                f.append(("C06:empty_cluster_value", f"empty cluster {j}: mean {cm[j]!r} median {cmed[j]!r}, expected 0"))
            continue
        if not is_spd(thetas[j]):
            continue
        kappa = ref.cond_number(thetas[j])
        if 30 * nw * EPS * kappa > ILL_CAP:
            continue
        vals, tols = [], []
        for i in idx:
            v, mg = ref.log_density(x[i], means[j], thetas[j])
            vals.append(v)
            tols.append(density_tol(nw, mg, kappa))
        tol = 2 * max(tols) + 64 * len(idx) * EPS * float(np.mean(np.abs(vals)))
        if abs(cm[j] - float(np.mean(vals))) > tol:
            f.append(("C06:cluster_mean", f"cluster {j}: mean {cm[j]!r} vs mean over its {len(idx)} points "
                                          f"{float(np.mean(vals))!r}"))
        if abs(cmed[j] - float(np.median(vals))) > tol:
            f.append(("C06:cluster_median", f"cluster {j}: median {cmed[j]!r} vs median over its points "
                                            f"{float(np.median(vals))!r}"))
    return dedupe(f)


# ---------------------------------------------------------------------------
# C07

def c07(out, rec=None):
    f = []
    if out.case["front"] != "joint":
        return f
    w = out.case["args"]["window_size"]
    fit = trace.phases(out, "fit")
    x = ref_stacked(out)
    if fit:
        got = fit[0]["args"][1]
        if not isinstance(got, np.ndarray) or got.shape != x.shape or not np.array_equal(got, x, equal_nan=True):
            f.append(("C07:stacking", "the stacked array handed to the main loop is not the concatenation of the "
                                      "per-series stackings (a window mixes rows of two series or rows are missing)"))
    lens = [length - w + 1 for length in out.case["data"]["lengths"]]
    bounds = trace.boundaries(out.case)
    t = sum(lens)
    # the mask helper, for this run's stacked lengths
    for p in trace.completed(out, "lsc_template"):
        tpl = p["ret"]
        arg = p["args"][0] if p["args"] else None
        if isinstance(tpl, np.ndarray) and isinstance(arg, list) and [int(v) for v in arg] == lens:
            want = np.ones(t)
            want[bounds] = 0
            if tpl.shape != (t,) or not np.array_equal(tpl, want):
                zeros = [int(i) for i in np.nonzero(np.asarray(tpl) == 0)[0]]
                f.append(("C07:mask_position", f"mask for stacked lengths {lens} has zeros at {zeros}, the boundary "
                                               f"pairs are {bounds} (beta[i] prices the pair (i,i+1))"))
    beta = user_beta(out)
    ub = ref.beta_vector(beta, t)
    want_b = ub.copy()
    want_b[bounds] = 0.0
    masked_needed = len(bounds) > 0 and np.any(ub[bounds] != 0)
    deviation = False
    for p in trace.completed(out, "viterbi"):
        seen = p["kwds"].get("label_switching_cost")
        if seen is None and len(p["args"]) > 1:
            seen = p["args"][1]
        sb = ref.beta_vector(seen, t)
        if np.array_equal(sb[:t - 1], want_b[:t - 1]):
            continue
        if masked_needed and np.array_equal(sb[:t - 1], ub[:t - 1]):
            deviation = True
            continue
        wrong = [int(i) for i in np.nonzero(sb[:t - 1] != want_b[:t - 1])[0][:5]]
        f.append(("C07:beta_at_kernel", f"round {p['round']}: switching cost reaching the labelling step differs "
                                        f"from (user beta with zeros at {bounds}) at pairs {wrong}"))
        break
    if deviation:
        f.append(("C07:boundary_priced", f"the labelling step received the user's unmasked switching cost; boundary "
                                         f"pairs {bounds} are priced"))
    if not out.ok:
        return dedupe(f)
    # optimum with boundary-free pricing, from the recorded last cost table
    vit = trace.completed(out, "viterbi")
    fs = trace.final_state(out)
    if vit and fs is not None and finite_state(fs):
        cost_tab = vit[-1]["kwds"].get("label_assignment_cost")
        if cost_tab is None and vit[-1]["args"]:
            cost_tab = vit[-1]["args"][0]
        if isinstance(cost_tab, np.ndarray) and np.all(np.isfinite(cost_tab)):
            opt, _ = ref.viterbi_min(cost_tab, beta, bounds)
            mine, mag = ref.path_cost(cost_tab, beta, fs["labels"], bounds)
            tol = 64 * t * EPS * (mag + abs(opt) + float(np.sum(np.abs(ub)))) + 1e-300
            reported = out.fields["label_assignment_cost"]
            if mine - opt > tol or abs(reported - mine) > tol:
                if deviation:
                    pass   # consequence of the known deviation; C09 checks optimality for the beta the kernel saw
                else:
                    f.append(("C07:not_boundary_free_optimum",
                              f"returned labelling costs {mine!r} (boundary pairs free), optimum {opt!r}, reported {reported!r}"))
    return dedupe(f)


# ---------------------------------------------------------------------------
# C09

def c09(out, rec=None):
    f = []
    lim = out.case["args"]["iteration_limit"]
    loop = [p for p in out.sim.phases if p["name"] in ("repopulate", "statistics", "optimise", "relabel")]
    rel = trace.completed(out, "relabel")
    r = len(rel)
    if out.ok:
        if r < 1:
            f.append(("C09:no_round", "the run returned a result without a single fit-and-relabel round"))
            return f
        if r > lim:
            f.append(("C09:limit_exceeded", f"{r} rounds with iteration_limit={lim}"))
    # order of phases within rounds, and hand-over of states
    expect_cycle = ["statistics", "optimise", "relabel"]
    rnd = 0
    prev_out = None
    pos = 0
    ok_sequence = True
    while pos < len(loop):
        want = (["repopulate"] if rnd > 0 else []) + expect_cycle
        seg = loop[pos:pos + len(want)]
        segn = [p["name"] for p in seg]
        if segn != want[:len(segn)]:
            if rnd == 0 and segn and segn[0] == "repopulate":
                f.append(("C09:repopulate_in_first_round", "repopulation was attempted in the first round"))
            else:
                f.append(("C09:phase_order", f"round {rnd}: phases {segn}, expected {want}"))
            ok_sequence = False
            break
        stop = False
        for p in seg:
            s_in = trace.first_state(p)
            if prev_out is not None and s_in is not None:
                d = state_diff(prev_out, s_in)
                if d:
                    f.append(("C09:handover", f"round {rnd} {p['name']} did not receive the previous phase's output "
                                              f"(differs in {d[:4]})"))
            if p.get("exc") is not None or "out" not in p:
                stop = True
                break
            if p["name"] == "repopulate":
                sz = trace.sizes(s_in)
                changed = p["out"]["labels"] != s_in["labels"]
                if changed and min(sz) >= 2:
                    f.append(("C09:needless_repopulation", f"round {rnd}: labels changed between rounds although "
                                                           f"every cluster had >= 2 points (sizes {sz})"))
            prev_out = p["out"]
        if stop:
            break
        pos += len(want)
        rnd += 1
    if not out.ok or not ok_sequence:
        return dedupe(f)
    # stopping rule
    if r < lim:
        if r < 2 or rel[-1]["out"]["labels"] != rel[-2]["out"]["labels"]:
            f.append(("C09:early_stop", f"stopped after {r} of {lim} rounds although the last two labellings differ"))
    # what is returned is the last round
    fs = rel[-1]["out"]
    res = out.result
    t = len(fs["labels"])
    ret_labels = flatten_result_labels(out)
    if ret_labels is not None and ret_labels != fs["labels"]:
        f.append(("C09:returned_labels", "returned labels are not the last round's labelling"))
    if not feq(out.fields["label_assignment_cost"], fs["cost"]):
        f.append(("C09:returned_cost", f"returned cost {out.fields['label_assignment_cost']!r} is not the last "
                                       f"round's cost {fs['cost']!r}"))
    opt = trace.completed(out, "optimise")
    if opt:
        last_mrf = [c["mrf"] for c in opt[-1]["out"]["clusters"]]
        got = out.fields["markov_random_fields"]
        if len(got) != len(last_mrf) or any(not beq(np.asarray(a), b) for a, b in zip(got, last_mrf)):
            f.append(("C09:returned_mrfs", "returned MRFs are not bit-equal to the last round's optimiser output"))
    # every round's labelling is optimal for that round's table and beta (R1, R2)
    vit = trace.completed(out, "viterbi")
    tabs = trace.completed(out, "ll_table")
    if len(vit) != r:
        if rec is not None:
            rec.skip("c09_viterbi_seam_count_mismatch")
    for j, p in enumerate(vit):
        tab = p["kwds"].get("label_assignment_cost")
        beta = p["kwds"].get("label_switching_cost")
        if tab is None and p["args"]:
            tab = p["args"][0]
            beta = p["args"][1] if len(p["args"]) > 1 else beta
        labels, cost = p["ret"][0], p["ret"][1]
        if not isinstance(tab, np.ndarray) or not np.all(np.isfinite(tab)):
            if rec is not None:
                rec.skip("c09_nonfinite_table")
            continue
        if j < len(tabs) and isinstance(tabs[j]["ret"], np.ndarray) and len(vit) == len(tabs):
            if not beq(tab, -tabs[j]["ret"]):
                f.append(("C09:cost_table", f"round {j}: the cost table given to the labelling step is not minus "
                                            f"the likelihood table of this round"))
        labels = [int(v) for v in labels]
        mine, mag = ref.path_cost(tab, beta, labels)
        best, _ = ref.viterbi_min(tab, beta)
        # the kernel adds and subtracts beta[i] at every step: rounding scales with sum(beta) too
        bmag = float(np.sum(np.abs(ref.beta_vector(beta, len(labels)))))
        tol = 64 * len(labels) * EPS * (mag + abs(best) + bmag) + 1e-300
        if mine - best > tol:
            f.append(("C09:not_optimal", f"round {j}: labelling costs {mine!r}, optimum is {best!r} (tol {tol:.3g})"))
        if abs(float(cost) - mine) > tol:
            f.append(("C09:reported_cost", f"round {j}: reported cost {float(cost)!r} vs cost of returned labels {mine!r}"))
        if rec is not None and tab.shape[1] ** tab.shape[0] <= 200000:
            bf = ref.brute_min(tab, beta)
            rec.probe("c09_brute_force_checked")
            if abs(bf - best) > tol:
                raise HarnessError(f"reference Viterbi {best} disagrees with brute force {bf}")
        # the relabel phase stored exactly this labelling and cost
        if j < len(rel):
            if rel[j]["out"]["labels"] != labels or not feq(rel[j]["out"]["cost"], float(cost)):
                f.append(("C09:stored_labelling", f"round {j}: the state leaving the relabel phase does not hold the "
                                                  f"labelling/cost the labelling step returned"))
    return dedupe(f)


def flatten_result_labels(out):
    """Interior (non -1 margin) labels of the result in concatenated order."""
    if not out.ok:
        return None
    w = out.case["args"]["window_size"]
    front, back = ref.margins(w)
    lists = [out.result.point_labels] if out.case["front"] == "single" else out.result.point_labels
    flat = []
    try:
        for labs in lists:
            labs = list(labs)
            flat += [int(v) for v in (labs[front:len(labs) - back] if back else labs[front:])]
    except (TypeError, ValueError):
        return None
    return flat


# ---------------------------------------------------------------------------
# C12

def c12(out, rec=None):
    f = []
    x = ref_stacked(out)
    biased = bool(out.case["args"]["biased_covariance"])
    k = out.case["args"]["num_clusters"]
    stats = trace.completed(out, "statistics")
    for p in stats:
        s_in = trace.first_state(p)
        labels = s_in["labels"]
        for j, c in enumerate(p["out"]["clusters"]):
            members = [i for i, lab in enumerate(labels) if lab == j]
            if not members:
                continue
            mean, cov = ref.cluster_stats(x, members, biased)
            n = len(members)
            xs = x[members]
            d = xs - mean
            mtol = 64 * n * EPS * np.mean(np.abs(xs), axis=0) + 1e-300
            if c["mean"] is None or c["mean"].shape != mean.shape or np.any(np.abs(c["mean"] - mean) > mtol):
                f.append(("C12:mean", f"round {p['round']} cluster {j}: mean handed on differs from the sample mean "
                                      f"of its {n} windows"))
                continue
            if n == 1 and not biased:
                if rec is not None:
                    rec.skip("c12_single_window_unbiased_undefined")
                continue
            denom = n if biased else n - 1
            mg = (np.abs(d).T @ np.abs(d)) / denom
            ctol = 64 * n * EPS * (mg + np.outer(np.mean(np.abs(xs), 0), np.mean(np.abs(d), 0)) * 2) + 1e-300
            got = c["emp"]
            if got is not None and got.ndim == 0 and cov.shape == (1, 1):
                got = got.reshape(1, 1)
            if got is None or got.shape != cov.shape or np.any(~(np.abs(got - cov) <= ctol)):
                other = ref.cluster_stats(x, members, not biased)[1]
                hint = ""
                if got is not None and got.shape == cov.shape and np.all(np.abs(got - other) <= ctol):
                    hint = " (it equals the OTHER estimator)"
                f.append(("C12:covariance", f"round {p['round']} cluster {j}: covariance handed on differs from the "
                                            f"{'biased' if biased else 'unbiased'} sample covariance of its {n} windows{hint}"))
    # pool seam: what the optimiser received, and whose result each cluster stores
    lam = out.kwargs["sparsity_weight"]
    w = out.case["args"]["window_size"]
    n_sens = out.case["data"]["N"]
    eps = float(out.kwargs["min_meaningful_covariance"])
    opts = trace.completed(out, "optimise")
    fitted_cov = {}          # cluster -> the covariance its current MRF was fitted to
    prev_mrf = {}
    for p in opts:
        tasks = [t for t in out.sim.tasks if t["round"] == p["round"]]
        s_in = trace.first_state(p)
        covs = [c["emp"] for c in s_in["clusters"]]
        if len(tasks) > len(covs):
            if rec is not None:
                rec.skip("c12_more_tasks_than_clusters")
            continue
        tcov = [t["args"][0] if t["args"] else t["kwds"].get("empirical_covariance") for t in tasks]
        unmatched = list(range(len(tcov)))
        owner = {}
        broken = False
        for j, cv in enumerate(covs):
            hit = [i for i in unmatched if beq(tcov[i], cv)]
            stored = p["out"]["clusters"][j]["mrf"]
            if hit:
                owner[j] = hit[0]
                unmatched.remove(hit[0])
                fitted_cov[j] = cv
            elif len(tasks) == len(covs):
                f.append(("C12:task_covariance", f"round {p['round']}: no optimiser task received cluster {j}'s covariance "
                                                 f"bit for bit"))
                broken = True
                break
            elif j in fitted_cov and beq(fitted_cov[j], cv) and beq(prev_mrf.get(j), stored):
                # no task for this cluster in this round, but its covariance is bit-identical to the one its MRF was
                # fitted to: a legitimate "nothing changed" shortcut
                if rec is not None:
                    rec.probe("c12_unchanged_cluster_not_resolved")
            else:
                f.append(("C12:mrf_not_refitted", f"round {p['round']}: cluster {j} got no optimiser task although its covariance "
                                                  f"differs from the one its MRF was fitted to (the MRF is not fitted to the "
                                                  f"current windows)"))
                broken = True
                break
        for j, c in enumerate(p["out"]["clusters"]):
            prev_mrf[j] = c["mrf"]
        if broken:
            break
        if True:
            for j, i in owner.items():
                t = tasks[i]
                a = list(t["args"])
                kw = t["kwds"]
                got_lam = a[1] if len(a) > 1 else kw.get("sparsity_weight")
                got_w = a[2] if len(a) > 2 else kw.get("window_size")
                got_n = a[3] if len(a) > 3 else kw.get("num_data_series")
                if isinstance(lam, np.ndarray):
                    lam_ok = isinstance(got_lam, np.ndarray) and beq(got_lam, lam)
                else:
                    lam_ok = (not isinstance(got_lam, (np.ndarray, list))) and got_lam is not None and \
                        float(got_lam) == float(lam)
                if not lam_ok:
                    f.append(("C12:task_lambda", f"round {p['round']} cluster {j}: optimiser received sparsity weight "
                                                 f"{_short(got_lam)} instead of the user's {_short(lam)}"))
                if got_w != w or got_n != n_sens:
                    f.append(("C12:task_shape", f"round {p['round']} cluster {j}: optimiser received W={got_w}, N={got_n} "
                                                f"instead of W={w}, N={n_sens}"))
                if t["theta"] is not None:
                    raw = reinflate(t["theta"])
                    if eps > 0:
                        raw[(raw < eps) & (raw > -eps)] = 0
                    stored = p["out"]["clusters"][j]["mrf"]
                    if stored is None or stored.shape != raw.shape or not np.array_equal(stored, raw, equal_nan=True):
                        f.append(("C12:stored_mrf", f"round {p['round']} cluster {j}: the MRF stored for this cluster is "
                                                    f"not the result of the task that received its covariance"))
    return dedupe(f)


def _short(v):
    if isinstance(v, np.ndarray):
        return f"array{v.shape} digest {hash(v.tobytes()) & 0xffff:x}"
    return repr(v)


# ---------------------------------------------------------------------------
# C13 (run level)

def partition_problems(s, k):
    pr = []
    if len(s["clusters"]) != k:
        pr.append(f"{len(s['clusters'])} clusters for K={k}")
        return pr
    if s["labels"] is None:
        return pr
    members = {}
    for i, lab in enumerate(s["labels"]):
        members.setdefault(lab, []).append(i)
    for j, c in enumerate(s["clusters"]):
        if c["members"] != members.get(j, []):
            pr.append(f"cluster {j}: member list (size {len(c['members'])}) is not the sorted set of points "
                      f"labelled {j} (size {len(members.get(j, []))})")
    bad = [lab for lab in members if not (0 <= lab < k)]
    if bad:
        pr.append(f"labels outside [0,{k}): {bad[:3]}")
    return pr


def c13_run(out, rec=None):
    f = []
    k = out.case["args"]["num_clusters"]
    for p in out.sim.phases:
        if p["name"] not in ("repopulate", "statistics", "optimise", "relabel", "ll_table", "bic", "ch",
                             "ll_by_cluster"):
            continue
        s_in = trace.first_state(p)
        if s_in is None:
            continue
        where = f"{p['name']} (round {p['round']})"
        pr = partition_problems(s_in, k)
        if pr:
            f.append(("C13:partition", f"state entering {where}: {pr[0]}"))
        if "out" in p:
            pr = partition_problems(p["out"], k)
            if pr:
                f.append(("C13:partition", f"state leaving {where}: {pr[0]}"))
        after = trace.first_state_after(p)
        if after is not None:
            d = state_diff(s_in, after)
            if d:
                f.append((f"C13:input_mutated:{p['name']}", f"{where} altered the state it was given: {d[:4]}"))
        fin = p.get("in_final")
        if fin and after is not None:
            d = state_diff(after, fin[sorted(fin)[0]])
            if d:
                f.append(("C13:state_changed_later", f"the state given to {where} changed after that phase "
                                                     f"returned: {d[:4]}"))
        if "out" in p and "out_final" in p:
            d = state_diff(p["out"], p["out_final"])
            if d:
                f.append(("C13:state_changed_later", f"the state returned by {where} changed later in the run: {d[:4]}"))
    return dedupe(f)


# ---------------------------------------------------------------------------
# C16

def c16(out, rec=None):
    f = []
    if not out.ok:
        return f
    fs = trace.final_state(out)
    if fs is None:
        raise HarnessError("no final state")
    thetas = [c["mrf"] for c in fs["clusters"]]
    emps = [c["emp"] for c in fs["clusters"]]
    if any(t is None or e is None for t, e in zip(thetas, emps)):
        return f
    got = out.fields["bayesian_information_criterion"]
    if not all(is_spd(t) for t in thetas) or not all(np.all(np.isfinite(e)) for e in emps):
        if rec is not None:
            rec.skip("c16_model_not_spd")
        return f
    nw = thetas[0].shape[0]
    emps = [e.reshape(nw, nw) for e in emps]
    val, mag, p = ref.bic(fs["labels"], thetas, emps)
    if not math.isfinite(got):
        f.append(("C16:nonfinite", f"BIC is {got} although every MRF is positive definite (definition gives {val!r})"))
        return f
    kap = max(ref.cond_number(t) for t in thetas)
    tol = 64 * nw * nw * EPS * mag + 2 * len(thetas) * 1e3 * nw * EPS * kap
    if tol > 1e-3 * max(1.0, abs(val)):
        if rec is not None:
            rec.skip("c16_ill_conditioned")
        return f
    if abs(got - val) > tol:
        f.append(("C16:value", f"BIC {got!r} vs definition {val!r} (P={p}, T={len(fs['labels'])}, "
                               f"label runs {trace.label_run_count(fs['labels'])}, tol {tol:.3g})"))
    return f


# ---------------------------------------------------------------------------
# C17

def c17(out, rec=None):
    f = []
    if not out.ok:
        return f
    k = out.case["args"]["num_clusters"]
    fs = trace.final_state(out)
    if fs is None or k < 2:
        return f
    if trace.exit_reason(out) not in ("converged", "converged_at_limit"):
        if rec is not None:
            rec.skip("c17_not_converged")
        return f
    if min(trace.sizes(fs)) == 0:
        if rec is not None:
            rec.skip("c17_empty_cluster")
        return f
    if not finite_state(fs):
        return f
    x = ref_stacked(out)
    labels = fs["labels"]
    got = out.fields["calinski_harabasz_index"]
    rec_means = [c["mean"] for c in fs["clusters"]]
    cands = [ref.calinski_harabasz(x, labels, k, means=None)]
    if all(m is not None for m in rec_means):
        cands.append(ref.calinski_harabasz(x, labels, k, means=rec_means))
    cands = [c for c in cands if c is not None]
    if not cands:
        if rec is not None:
            rec.skip("c17_zero_dispersion")
        return f
    # R2: B and Wd are sums of squares of centred data; centring loses about eps*(baseline/spread) per element, so the
    # legitimate relative error of a correct implementation grows linearly (not quadratically) with baseline/spread
    spread = math.sqrt(max(float(np.mean((x - x.mean(axis=0)) ** 2)), 1e-300))
    baseline = float(np.max(np.abs(x.mean(axis=0))))
    rtol = 1e-10 + 256 * EPS * (1.0 + baseline / spread)
    # the same rule for the within-cluster sum: its terms are residuals about the cluster centroid
    lab = np.asarray(labels)
    wres = [x[lab == j] - x[lab == j].mean(axis=0) for j in range(k) if np.any(lab == j)]
    wspread = math.sqrt(max(float(np.mean(np.concatenate(wres) ** 2)), 1e-300))
    rtol += 256 * EPS * float(np.max(np.abs(x))) / wspread

    def near(a, b):
        if not math.isfinite(a) or not math.isfinite(b):
            return False
        return abs(a - b) <= rtol * max(abs(a), abs(b)) + 1e-300
    if any(near(got, c) for c in cands):
        return f
    dev = [ref.calinski_harabasz(x, labels, k, means=None, scalar_centre=True)]
    if all(m is not None for m in rec_means):
        dev.append(ref.calinski_harabasz(x, labels, k, means=rec_means, scalar_centre=True))
    if any(d is not None and near(got, d) for d in dev):
        f.append(("C17:scalar_centre", f"index {got!r} equals the value obtained by centring on the scalar mean of all "
                                       f"matrix entries; the definition (column-wise centroid) gives {cands[0]!r}"))
    else:
        f.append(("C17:value", f"index {got!r} matches neither the definition {cands[0]!r} nor the known "
                               f"scalar-centre deviation {dev[0]!r}"))
    return f
