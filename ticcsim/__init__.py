"""ticcsim: deterministic simulation with fault injection for fast_ticc.

See /verif/DESIGN.md.  Nothing in here imports fast_ticc at module import time
except through ticcsim.core.load_fast_ticc(), so that the execution mode
(JIT / interpreted / numba absent) can be fixed first.
"""
