"""Core plumbing: environment, seed derivation, choosers, identity patching, digests."""

import hashlib
import importlib
import io
import os
import random
import struct
import sys
import types

import numpy as np

VERIF_ROOT = os.path.dirname(os.path.dirname(os.path.abspath(__file__)))
MODES = ("nojit", "jit", "nonumba")

_FIXED_ENV = {
    "OPENBLAS_NUM_THREADS": "1",
    "OMP_NUM_THREADS": "1",
    "MKL_NUM_THREADS": "1",
    "PYTHONHASHSEED": "0",
    "PYTHONDONTWRITEBYTECODE": "1",
    "PYTHONWARNINGS": "ignore",
}


def repo_src():
    return os.environ.get("TICCSIM_REPO_SRC", "/repo/src")


def mode_env(mode, hashseed="0", numba_threads=None):
    """Environment for a worker interpreter running in `mode`."""
    env = dict(os.environ)
    env.update(_FIXED_ENV)
    env["PYTHONHASHSEED"] = str(hashseed)
    env["TICCSIM_MODE"] = mode
    env.pop("CUPCAKE_ENABLE_MULTIPROCESSING", None)
    if mode == "nojit" or mode == "nonumba":
        env["NUMBA_DISABLE_JIT"] = "1"
    else:
        env.pop("NUMBA_DISABLE_JIT", None)
        env["NUMBA_NUM_THREADS"] = str(numba_threads or 16)
        env["NUMBA_THREADING_LAYER"] = "omp"
        # OMP_NUM_THREADS stays 1 (scikit-learn's k-means reductions depend on it); numba's omp
        # layer requests its thread count explicitly and still runs NUMBA_NUM_THREADS threads (measured)
    env["PYTHONPATH"] = VERIF_ROOT + os.pathsep + env.get("PYTHONPATH", "")
    return env


_LOADED = {}


def current_mode():
    return os.environ.get("TICCSIM_MODE", "nojit")


def load_fast_ticc():
    """Import fast_ticc from the working tree, in the mode fixed by TICCSIM_MODE.

    Must be the first importer of fast_ticc in the process.
    """
    if "pkg" in _LOADED:
        return _LOADED["pkg"]
    mode = current_mode()
    if mode == "nonumba":
        # injected import failure: `import numba` raises ImportError
        sys.modules["numba"] = None
    src = repo_src()
    if src in sys.path:
        sys.path.remove(src)
    sys.path.insert(0, src)
    # the library prints its arguments on every call; warnings are noise here
    import warnings
    warnings.filterwarnings("ignore")
    pkg = importlib.import_module("fast_ticc")
    got = os.path.realpath(os.path.dirname(pkg.__file__))
    want = os.path.realpath(os.path.join(src, "fast_ticc"))
    if got != want:
        raise HarnessError(f"fast_ticc imported from {got}, expected {want}")
    for name in ("main_loop", "front_end", "cluster_maintenance", "cluster_label_assignment",
                 "graphical_lasso", "likelihood", "cluster_metrics", "data_preparation",
                 "matrix_compression", "numba_guard", "admm", "admm.solver",
                 "admm.front_end", "admm.unique_values", "containers.arguments",
                 "containers.model_state", "containers.results"):
        try:
            importlib.import_module("fast_ticc." + name)
        except ImportError:
            # a refactor may have moved a module; seams are located by identity later
            pass
    _LOADED["pkg"] = pkg
    return pkg


def ft_modules():
    """All loaded fast_ticc modules (name -> module), sorted by name."""
    return {n: m for n, m in sorted(sys.modules.items())
            if (n == "fast_ticc" or n.startswith("fast_ticc.")) and isinstance(m, types.ModuleType)}


class HarnessError(Exception):
    """Trouble in the harness itself (missing seam, oracle crash). Never a VIOLATION."""


# ---------------------------------------------------------------------------
# seeds

def H(*parts):
    """Stable 63-bit hash of the parts (ints / strings)."""
    h = hashlib.sha256()
    for p in parts:
        h.update(repr(p).encode())
        h.update(b"\x00")
    return int.from_bytes(h.digest()[:8], "big") >> 1


def rng(*parts):
    return random.Random(H(*parts))


def base_seed():
    try:
        return int(os.environ.get("VERIF_SEED", "0"))
    except ValueError:
        return H(os.environ.get("VERIF_SEED"))


# ---------------------------------------------------------------------------
# choosers: every scheduling decision goes through one of these

class Chooser:
    """Answers choose(n) from a PRNG (recording) or from a recorded list (replaying)."""

    def __init__(self, seed=None, recorded=None, bias="uniform"):
        self.recorded = list(recorded) if recorded is not None else None
        self.pos = 0
        self.rng = random.Random(seed if seed is not None else 0)
        self.bias = bias
        self.log = []

    def choose(self, n, tag=""):
        if n <= 0:
            raise HarnessError("choose from empty set")
        if self.recorded is not None:
            c = self.recorded[self.pos] if self.pos < len(self.recorded) else 0
            self.pos += 1
            if not isinstance(c, int) or c < 0 or c >= n:
                c = 0
        elif n == 1:
            c = 0
        else:
            r = self.rng.random()
            if self.bias == "fifo" and r < 0.7:
                c = 0
            elif self.bias == "lifo" and r < 0.7:
                c = n - 1
            else:
                c = self.rng.randrange(n)
        self.log.append(c)
        return c

    def flag(self, p, tag=""):
        """Boolean decision with probability p of True (recorded as 0/1)."""
        if self.recorded is not None:
            return bool(self.choose(2, tag))
        c = 1 if self.rng.random() < p else 0
        self.log.append(c)
        return bool(c)


# ---------------------------------------------------------------------------
# identity patching across all fast_ticc modules

class Patcher:
    def __init__(self):
        self.undo = []

    def replace_identity(self, original, replacement):
        """Replace every module attribute of any loaded fast_ticc module that `is` original."""
        n = 0
        for mod in ft_modules().values():
            for attr, val in list(vars(mod).items()):
                if val is original:
                    setattr(mod, attr, replacement)
                    self.undo.append((mod, attr, original))
                    n += 1
        return n

    def set_attr(self, obj, attr, replacement):
        original = getattr(obj, attr)
        setattr(obj, attr, replacement)
        self.undo.append((obj, attr, original))

    def restore(self):
        for obj, attr, original in reversed(self.undo):
            setattr(obj, attr, original)
        self.undo = []


# ---------------------------------------------------------------------------
# digests

def _feed(h, obj):
    if obj is None:
        h.update(b"N")
    elif isinstance(obj, (bool, np.bool_)):
        h.update(b"b1" if obj else b"b0")
    elif isinstance(obj, (int, np.integer)):
        h.update(b"i" + str(int(obj)).encode())
    elif isinstance(obj, (float, np.floating)):
        h.update(b"f" + struct.pack("<d", float(obj)))
    elif isinstance(obj, str):
        h.update(b"s" + obj.encode())
    elif isinstance(obj, bytes):
        h.update(b"y" + obj)
    elif isinstance(obj, np.ndarray):
        a = np.ascontiguousarray(obj)
        h.update(b"a" + str(a.dtype).encode() + str(a.shape).encode())
        h.update(a.tobytes())
    elif isinstance(obj, (list, tuple)):
        h.update(b"l" + str(len(obj)).encode())
        for x in obj:
            _feed(h, x)
    elif isinstance(obj, dict):
        h.update(b"d" + str(len(obj)).encode())
        for k in sorted(obj, key=repr):
            _feed(h, k)
            _feed(h, obj[k])
    else:
        h.update(b"r" + repr(obj).encode())


def digest(obj):
    h = hashlib.sha256()
    _feed(h, obj)
    return h.hexdigest()[:24]


def arr_digest(a):
    if a is None:
        return None
    return digest(np.asarray(a))


class NullOut(io.TextIOBase):
    def write(self, s):
        return len(s)
