"""One simulated run = one front-end call executed by real fast_ticc code with every
source of nondeterminism behind a seam the simulator owns.  See DESIGN.md section 3."""

import functools
import gc
import multiprocessing
import multiprocessing.pool
import os
import random as _pyrandom
import sys
import time as _time
import types

import numpy as np

from . import core, simpool, workload
from .core import HarnessError, digest


class InjectedFault(Exception):
    """Custom picklable exception used by the fault injector."""


EXC_TYPES = {
    "ValueError": ValueError,
    "LinAlgError": np.linalg.LinAlgError,
    "FloatingPointError": FloatingPointError,
    "MemoryError": MemoryError,
    "InjectedFault": InjectedFault,
    "KeyError": KeyError,
}

PHASES = [
    # (event name, module, attribute)
    ("init_labels", "fast_ticc.cluster_label_assignment", "build_initial_clusters"),
    ("repopulate", "fast_ticc.cluster_maintenance", "repopulate_empty_clusters"),
    ("statistics", "fast_ticc.cluster_maintenance", "update_all_cluster_statistics"),
    ("optimise", "fast_ticc.graphical_lasso", "optimize_markov_random_fields"),
    ("relabel", "fast_ticc.cluster_label_assignment", "predict_cluster_labels"),
    ("ll_table", "fast_ticc.likelihood", "all_points_all_clusters_log_likelihood"),
    ("viterbi", "fast_ticc.cluster_label_assignment", "assign_point_cluster_labels"),
    ("bic", "fast_ticc.cluster_metrics", "bayesian_information_criterion"),
    ("ch", "fast_ticc.cluster_metrics", "calinski_harabasz_index"),
    ("ll_by_cluster", "fast_ticc.main_loop", "_compute_log_likelihood_by_cluster"),
    ("fit", "fast_ticc.main_loop", "fit_stacked_data"),
    ("stack", "fast_ticc.data_preparation", "stack_training_data"),
    ("stack_multi", "fast_ticc.data_preparation", "stack_training_data_multiple_series"),
    ("lsc_template", "fast_ticc.data_preparation", "label_switching_cost_template"),
    ("pad", "fast_ticc.data_preparation", "pad_missing_labels"),
    ("split", "fast_ticc.data_preparation", "split_joint_labels"),
]
LOOP_PHASES = ("repopulate", "statistics", "optimise", "relabel")
FAULTABLE_PHASES = ("stack", "stack_multi", "init_labels", "repopulate", "statistics", "optimise", "relabel",
                    "ll_table", "viterbi", "bic", "ch", "ll_by_cluster", "split", "pad")


# ---------------------------------------------------------------------------
# snapshots

def _arr(x):
    if x is None:
        return None
    a = np.asarray(x)
    if a.dtype == object:
        return None
    return np.array(a, copy=True)


def snap_cluster(c):
    inv = getattr(c, "inverse_covariance", None)
    mrf = getattr(c, "train_inverse", None)
    ld = getattr(c, "log_determinant", None)
    try:
        ld = None if ld is None else float(ld)
    except (TypeError, ValueError):
        ld = None
    return dict(
        obj=id(c),
        members=list(c.member_points) if c.member_points is not None else None,
        members_obj=id(c.member_points),
        mean=_arr(getattr(c, "stacked_data_mean", None)),
        emp=_arr(getattr(c, "empirical_covariance", None)),
        mrf=_arr(mrf),
        ccov=_arr(getattr(c, "computed_covariance", None)),
        logdet=ld,
        inv=_arr(inv),
        inv_is_mrf=(inv is not None and inv is mrf),
    )


def snap_state(m):
    labels = m.point_labels
    cost = m.label_assignment_cost
    try:
        cost = None if cost is None else float(cost)
    except (TypeError, ValueError):
        cost = None
    return dict(
        obj=id(m),
        labels=None if labels is None else [int(x) for x in labels],
        labels_obj=id(labels),
        cost=cost,
        clusters=[snap_cluster(c) for c in m.clusters],
        clusters_obj=id(m.clusters),
        args_obj=id(m.arguments),
    )


def _is_state(x):
    return type(x).__name__ == "ModelState" and hasattr(x, "clusters")


def _plain(x):
    """Value snapshot of a non-state argument / return value."""
    if isinstance(x, np.ndarray):
        return np.array(x, copy=True)
    if isinstance(x, (list, tuple)):
        if len(x) > 0 and all(isinstance(e, (int, np.integer)) for e in x):
            return [int(e) for e in x]
        return [_plain(e) for e in x]
    if isinstance(x, (int, float, str, bool, type(None), np.generic)):
        return x
    return ("obj", type(x).__name__)


# ---------------------------------------------------------------------------
# the simulator state for one call

class Sim:
    def __init__(self, case, record=True):
        self.case = case
        self.record = record
        p = case["pool"]
        self.chooser = core.Chooser(seed=p["sched_seed"], recorded=p.get("choices"),
                                    bias=p.get("bias", "uniform"))
        self.eager_pickle_p = p.get("eager_pickle_p", 1.0)
        self.cold_cache = p.get("cold_cache", False)
        self.direct = p.get("direct", False)
        self.events = []          # pool/scheduler/phase event log (small dicts)
        self.phases = []          # phase records with snapshots
        self.tasks = []           # optimiser task records
        self.pools = []
        self.finish_order = []
        self.deadlocks = 0
        self.in_worker = 0
        self.seq = 0
        self.probes = {}
        self.fault_fired = {}
        self.relabels_done = 0
        self.phase_occ = {}
        self.faults = [dict(f) for f in case.get("faults", [])]
        d = case["donor"]
        self.donor_mode = d["mode"]
        self.donor_rng = _pyrandom.Random(d["seed"])
        self.donor_recorded = d.get("draws")
        self.donor_draws = []
        self.delays = case["pool"].get("delays")  # real pool: cov digest -> seconds

    def log(self, kind, **kw):
        self.seq += 1
        kw["seq"] = self.seq
        kw["kind"] = kind
        self.events.append(kw)

    def probe(self, name, n=1):
        self.probes[name] = self.probes.get(name, 0) + n

    def fired(self, kind):
        self.fault_fired[kind] = self.fault_fired.get(kind, 0) + 1

    def clear_caches(self):
        for c in find_caches():
            c.cache_clear()

    # donor draws ---------------------------------------------------------
    def sample(self, population, k):
        population = list(population)
        n = len(population)
        if k > n or k < 0:
            raise ValueError("Sample larger than population or is negative")
        if self.donor_recorded is not None and len(self.donor_draws) < len(self.donor_recorded):
            idx = [i for i in self.donor_recorded[len(self.donor_draws)] if 0 <= i < n]
            seen = set()
            idx = [i for i in idx if not (i in seen or seen.add(i))][:k]
            for i in range(n):
                if len(idx) >= k:
                    break
                if i not in seen:
                    idx.append(i)
                    seen.add(i)
        elif self.donor_recorded is not None:
            idx = list(range(k))
        else:
            style = self.donor_rng.randrange(4)
            if style == 0:
                idx = list(range(k))                      # the first k members
            elif style == 1:
                idx = list(range(n - k, n))[::-1]          # the last k, reversed
            else:
                idx = self.donor_rng.sample(range(n), k)  # any k-subset in any order
        self.donor_draws.append(list(idx))
        self.log("donor_draw", n=n, k=k)
        return [population[i] for i in idx]


_ACTIVE = None          # the Sim of the call in progress (also inherited by forked workers)
_ORIG = {}              # original functions by phase name


def find_caches():
    out = []
    for mod in core.ft_modules().values():
        for attr, val in sorted(vars(mod).items()):
            if isinstance(val, functools._lru_cache_wrapper):
                out.append(val)
    return out


# ---------------------------------------------------------------------------
# the optimiser task entry point (module level: picklable by the real pool too)

def task_entry(*args, **kwds):
    sim = _ACTIVE
    orig = _ORIG["admm"]
    if sim is None:
        return orig(*args, **kwds)
    cov = args[0] if args else kwds.get("empirical_covariance")
    cd = core.arr_digest(cov) if isinstance(cov, np.ndarray) else None
    rec = None
    if sim.record and sim.in_worker:
        rec = dict(cov_digest=cd, round=sim.relabels_done, args=[_plain(a) for a in args],
                   kwds={k: _plain(v) for k, v in kwds.items()}, theta=None, exc=None,
                   args_obj=[id(a) for a in args])
        sim.tasks.append(rec)
    if sim.delays and cd in sim.delays:
        _time.sleep(sim.delays[cd])
    fault = None
    for f in sim.faults:
        if f["kind"] == "task_raise" and f.get("cov") in (cd, "*") and not f.get("fired"):
            fault = f
            break
    if fault is not None and fault.get("when", "before") == "before":
        fault["fired"] = not fault.get("sticky", False)      # a sticky fault hits every task
        sim.fired("task_raise")
        raise EXC_TYPES[fault["exc"]](fault.get("msg", "injected task fault"))
    res = orig(*args, **kwds)
    if rec is not None:
        rec["theta"] = _arr(getattr(res, "theta", None))
        rec["args_changed"] = [i for i, a in enumerate(args) if isinstance(a, np.ndarray)
                               and not (a.shape == rec["args"][i].shape and a.tobytes() == rec["args"][i].tobytes())]
    if fault is not None:
        fault["fired"] = True
        sim.fired("task_raise")
        if fault["when"] == "unpicklable":
            res.poison = lambda: None   # cannot be pickled on the way back
            return res
        raise EXC_TYPES[fault["exc"]](fault.get("msg", "injected task fault"))
    return res


def _phase_wrapper(name, orig):
    def wrapper(*args, **kwds):
        sim = _ACTIVE
        if sim is None or sim.in_worker:
            return orig(*args, **kwds)
        occ = sim.phase_occ.get(name, 0)
        sim.phase_occ[name] = occ + 1
        rnd = sim.relabels_done
        fault = None
        for f in sim.faults:
            if f["kind"] == "phase_raise" and f["phase"] == name and f["occ"] == occ and not f.get("fired"):
                fault = f
                break
        rec = None
        if sim.record:
            rec = dict(name=name, occ=occ, round=rnd, exc=None)
            states = [(i, a) for i, a in enumerate(args) if _is_state(a)]
            rec["in"] = {i: snap_state(a) for i, a in states}
            rec["_in_refs"] = {i: a for i, a in states}
            rec["args"] = [None if _is_state(a) else _plain(a) for a in args]
            rec["kwds"] = {k: _plain(v) for k, v in kwds.items()}
            rec["arg_objs"] = [id(a) for a in args]
            sim.phases.append(rec)
        sim.log("phase_begin", name=name, occ=occ, round=rnd)
        if fault is not None and fault["when"] == "before":
            fault["fired"] = True
            sim.fired("phase_raise")
            sim.log("fault", name=name, occ=occ, when="before")
            raise EXC_TYPES[fault["exc"]](fault.get("msg", f"injected fault before {name}"))
        try:
            out = orig(*args, **kwds)
        except BaseException as e:
            if rec is not None:
                rec["exc"] = (type(e).__name__, str(e)[:200])
                rec["in_after"] = {i: snap_state(a) for i, a in states}
            sim.log("phase_raise", name=name, occ=occ, exc=type(e).__name__)
            raise
        if name == "relabel":
            sim.relabels_done += 1
        if rec is not None:
            rec["in_after"] = {i: snap_state(a) for i, a in states}
            rec["args_after"] = [None if _is_state(a) else _plain(a) for a in args]
            rec["kwds_after"] = {k: _plain(v) for k, v in kwds.items()}
            if _is_state(out):
                rec["out"] = snap_state(out)
                rec["_out_ref"] = out
                rec["out_is_in"] = any(out is a for _, a in states)
            else:
                rec["ret"] = _plain(out)
                rec["ret_obj"] = id(out)
        sim.log("phase_end", name=name, occ=occ)
        if fault is not None:
            fault["fired"] = True
            sim.fired("phase_raise")
            sim.log("fault", name=name, occ=occ, when="after")
            raise EXC_TYPES[fault["exc"]](fault.get("msg", f"injected fault after {name}"))
        return out
    wrapper.__name__ = getattr(orig, "__name__", name)
    wrapper.__wrapped_by_ticcsim__ = True
    return wrapper


class _RandomShim:
    def __init__(self, sim, real):
        self.__dict__["_sim"] = sim
        self.__dict__["_real"] = real

    def sample(self, population, k, **kw):
        return self._sim.sample(population, k)

    def __getattr__(self, name):
        return getattr(self._real, name)


class _PrangeSeam:
    """Interpreted-mode stand-in for numba.prange: yields the loop indices in a
    simulator-chosen order (a seeded permutation of seeded chunks)."""

    def __init__(self, sim):
        self.sim = sim

    def __call__(self, *args):
        idx = list(range(*args))
        r = _pyrandom.Random(core.H(self.sim.case["pool"]["sched_seed"], "prange", len(idx)))
        style = self.sim.case["pool"].get("prange", "shuffle")
        if style == "identity" or len(idx) < 2:
            return iter(idx)
        if style == "reverse":
            return iter(idx[::-1])
        nchunks = r.randint(1, min(16, len(idx)))
        bounds = sorted(r.sample(range(1, len(idx)), nchunks - 1)) if nchunks > 1 else []
        chunks = [idx[a:b] for a, b in zip([0] + bounds, bounds + [len(idx)])]
        # interleave chunks like threads would
        out = []
        live = [list(c) for c in chunks]
        while live:
            c = r.randrange(len(live))
            out.append(live[c].pop(0))
            if not live[c]:
                live.pop(c)
        self.sim.probe("prange_permuted")
        return iter(out)


def install_seams(sim, pool_kind):
    global _ACTIVE
    pat = core.Patcher()
    mods = core.ft_modules()
    missing = []
    for name, modname, attr in PHASES:
        mod = mods.get(modname)
        orig = getattr(mod, attr, None) if mod else None
        if orig is None:
            missing.append(name)
            continue
        if getattr(orig, "__wrapped_by_ticcsim__", False):
            raise HarnessError("seams installed twice")
        _ORIG[name] = orig
        pat.replace_identity(orig, _phase_wrapper(name, orig))
    admm = mods.get("fast_ticc.admm")
    orig = getattr(admm, "admm_optimize_theta", None) if admm else None
    if orig is None:
        missing.append("admm")
    else:
        _ORIG["admm"] = orig
        pat.replace_identity(orig, task_entry)
    if pool_kind == "sim":
        shim = simpool.MultiprocessingShim(sim, multiprocessing)
        n = pat.replace_identity(multiprocessing, shim)
        pool_factory = shim.Pool
        pat.replace_identity(multiprocessing.Pool, pool_factory)
        pat.replace_identity(multiprocessing.pool.Pool, pool_factory)
        if n == 0:
            sim.probe("no_multiprocessing_attr")
        tshim = simpool.TimeShim(sim, _time)
        pat.replace_identity(_time, tshim)
        pat.replace_identity(_time.sleep, tshim.sleep)
    if sim.donor_mode == "adversarial":
        pat.replace_identity(_pyrandom, _RandomShim(sim, _pyrandom))
        pat.replace_identity(_pyrandom.sample, sim.sample)
    if core.current_mode() != "jit" and sim.case["pool"].get("prange"):
        ng = mods.get("fast_ticc.numba_guard")
        if ng is not None and hasattr(ng, "prange"):
            pat.set_attr(ng, "prange", _PrangeSeam(sim))
    sim.missing_seams = missing
    _ACTIVE = sim
    return pat


def remove_seams(pat):
    global _ACTIVE
    _ACTIVE = None
    pat.restore()


# ---------------------------------------------------------------------------
# caller-owned objects (C19)

def _owned_snapshot(data, kwargs):
    objs = {}
    if isinstance(data, np.ndarray):
        objs["series0"] = data
    else:
        for i, s in enumerate(data):
            objs[f"series{i}"] = s
    for k in ("sparsity_weight", "label_switching_cost"):
        if isinstance(kwargs.get(k), np.ndarray):
            objs[k] = kwargs[k]
    snap = {}
    for k, a in objs.items():
        snap[k] = dict(bytes=np.ascontiguousarray(a).tobytes(), shape=a.shape, strides=a.strides,
                       dtype=str(a.dtype), writeable=bool(a.flags.writeable), obj=id(a))
    if not isinstance(data, np.ndarray):
        snap["__list__"] = dict(ids=[id(s) for s in data], n=len(data))
    return objs, snap


def _owned_changes(objs, snap, data):
    changes = []
    for k, a in objs.items():
        s = snap[k]
        if a.shape != s["shape"] or a.strides != s["strides"] or str(a.dtype) != s["dtype"] \
                or bool(a.flags.writeable) != s["writeable"]:
            changes.append((k, "metadata"))
        elif np.ascontiguousarray(a).tobytes() != s["bytes"]:
            changes.append((k, "contents"))
    if "__list__" in snap:
        if len(data) != snap["__list__"]["n"] or [id(x) for x in data] != snap["__list__"]["ids"]:
            changes.append(("__list__", "membership"))
    return changes


# ---------------------------------------------------------------------------

class Outcome:
    pass


def result_fields(res):
    """All fields of a result object as plain values (for digests and oracles)."""
    if res is None:
        return None
    out = {}
    for k, v in sorted(vars(res).items()):
        if isinstance(v, np.ndarray):
            out[k] = np.array(v, copy=True)
        elif isinstance(v, (list, tuple)):
            if len(v) and isinstance(v[0], np.ndarray):
                out[k] = [np.array(x, copy=True) for x in v]
            elif len(v) and isinstance(v[0], (list, tuple)):
                out[k] = [[_scalar(e) for e in x] for x in v]
            else:
                out[k] = [_scalar(e) for e in v]
        else:
            out[k] = _scalar(v)
    return out


def _scalar(e):
    if isinstance(e, (bool, np.bool_)):
        return bool(e)
    if isinstance(e, (int, np.integer)):
        return int(e)
    if isinstance(e, (float, np.floating)):
        return float(e)
    if isinstance(e, np.ndarray):
        return np.array(e, copy=True)
    return e


def _refill(buffers, data):
    """The caller's buffer(s) of an earlier call, refilled in place with this call's values (same shapes and dtypes),
    or None when they do not fit."""
    a = data if isinstance(data, list) else [data]
    b = buffers if isinstance(buffers, list) else [buffers]
    if isinstance(data, list) != isinstance(buffers, list) or len(a) != len(b):
        return None
    if not all(isinstance(y, np.ndarray) and x.shape == y.shape and x.dtype == y.dtype and y.flags.writeable
               for x, y in zip(a, b)):
        return None
    for x, y in zip(a, b):
        np.copyto(y, x)
    return buffers


def run_call(case, record=True, owned=False, buffers=None):
    """Execute the call described by `case` under the simulator; returns an Outcome."""
    ft = core.load_fast_ticc()
    sim = Sim(case, record=record)
    pool_kind = case["pool"].get("kind", "sim")
    out = Outcome()
    out.case = case
    out.sim = sim
    data, kwargs = workload.materialise(case)
    out.buffer_reused = False
    if buffers is not None:
        refilled = _refill(buffers, data)
        if refilled is not None:
            data = refilled
            out.buffer_reused = True
    if case.get("wrong_front"):
        # give the front end the other front end's kind of input
        front = ft.ticc_labels if case["front"] == "joint" else ft.ticc_joint_labels
    else:
        front = ft.ticc_labels if case["front"] == "single" else ft.ticc_joint_labels
    if owned:
        objs, snap = _owned_snapshot(data, kwargs)
    old_env = os.environ.get("CUPCAKE_ENABLE_MULTIPROCESSING")
    if case.get("mp_switch"):
        os.environ["CUPCAKE_ENABLE_MULTIPROCESSING"] = "1"
    else:
        os.environ.pop("CUPCAKE_ENABLE_MULTIPROCESSING", None)
    old_stdout = sys.stdout
    sys.stdout = core.NullOut()
    pat = install_seams(sim, pool_kind)
    _LIVE["pat"], _LIVE["stdout"] = pat, old_stdout
    np.random.seed(case["np_seed"] % (2 ** 32))
    _pyrandom.seed(case["py_seed"])
    gc_was = gc.isenabled()
    if pool_kind == "real":
        gc.collect()
        gc.disable()
    out.result = None
    out.exc = None
    out.exc_obj = None
    try:
        try:
            res = front(data, **kwargs)
            out.result = res
            out.ok = True
        except HarnessError:
            raise                # trouble in the simulator itself is never an outcome of the call under test
        except Exception as e:   # noqa: BLE001 - the call under test may raise anything
            out.ok = False
            out.exc = (type(e).__name__, str(e))
            out.exc_obj = e
        # the instant the call returned or raised: pool life cycle
        out.pool_states = [p.state for p in sim.pools]
        out.pools_released = all(p.released() for p in sim.pools)
        if pool_kind == "real":
            out.children_after = _children_after()
    finally:
        # every state ever handed from phase to phase, looked at again when the call is over
        for rec in sim.phases:
            if "_in_refs" in rec:
                rec["in_final"] = {i: snap_state(a) for i, a in rec.pop("_in_refs").items()}
            if "_out_ref" in rec:
                rec["out_final"] = snap_state(rec.pop("_out_ref"))
        remove_seams(pat)
        _LIVE.pop("pat", None)
        _LIVE.pop("stdout", None)
        sys.stdout = old_stdout
        if old_env is None:
            os.environ.pop("CUPCAKE_ENABLE_MULTIPROCESSING", None)
        else:
            os.environ["CUPCAKE_ENABLE_MULTIPROCESSING"] = old_env
        if pool_kind == "real":
            if gc_was:
                gc.enable()
            gc.collect()
    # R6: a tree the seams do not fit is harness trouble, never a verdict
    if sim.missing_seams:
        raise HarnessError(f"HARNESS-INCOMPATIBLE: expected seam(s) not found in fast_ticc: {sim.missing_seams}")
    if record and out.ok:
        fired = {p["name"] for p in sim.phases}
        never = [n for n in ("fit", "statistics", "optimise", "relabel", "ll_table", "viterbi") if n not in fired]
        if never:
            raise HarnessError(f"HARNESS-INCOMPATIBLE: a run completed but phase(s) {never} never fired at their seams")
    out.np_state_after = digest(list(np.random.get_state()[1][:8]))
    out.fields = result_fields(out.result)
    out.result_digest = digest(out.fields) if out.ok else None
    out.owned_changes = _owned_changes(objs, snap, data) if owned else None
    out._owned = (objs, snap, data) if owned else None
    out.data = data
    out.kwargs = kwargs
    out.event_digest = digest([[e["kind"]] + [e.get(k) for k in ("pool", "task", "worker", "name", "occ")]
                               for e in sim.events])
    return out


_LIVE = {}


def abandon_call():
    """Undo the seams of a call that was abandoned half-way (wall cap)."""
    global _ACTIVE
    pat = _LIVE.pop("pat", None)
    if pat is not None:
        _ACTIVE = None
        pat.restore()
    if "stdout" in _LIVE:
        sys.stdout = _LIVE.pop("stdout")
    gc.enable()


def owned_recheck(out):
    """Look again, later in the process history, at the caller-owned objects of an earlier call."""
    if out._owned is None:
        return []
    return _owned_changes(*out._owned)


def _children_after(wait=3.0):
    """Live child processes right after the call, no GC help.  Processes that are
    merely in the middle of exiting are given `wait` seconds."""
    t0 = _time.time()
    while True:
        kids = multiprocessing.active_children()
        if not kids or _time.time() - t0 > wait:
            return [k.name for k in kids]
        _time.sleep(0.05)


def execute(case, record=True, owned=False):
    """Run the case's process history (untraced), then the case itself."""
    hist_out = []
    buffers = None
    for h in case.get("history", []):
        ho = run_call(h, record=False, buffers=buffers if h.get("reuse_buffer") else None)
        hist_out.append((ho.ok, ho.exc[0] if ho.exc else None))
        if case.get("reuse_buffer") or h.get("reuse_buffer"):
            buffers = ho.data      # a caller that keeps one buffer and refills it between calls
    out = run_call(case, record=record, owned=owned, buffers=buffers if case.get("reuse_buffer") else None)
    out.history_outcomes = hist_out
    return out
