"""SimPool: a deterministic, single-threaded model of multiprocessing.Pool.

The main thread only blocks in get/wait/join; whenever it blocks the scheduler runs,
drawing one enabled event after another from the run's Chooser until the awaited
condition holds.  Every event is appended to the event log with a global sequence
number.  See DESIGN.md section 3.2.
"""

import copy
import os
import pickle
import random as _pyrandom
import multiprocessing.pool as _mpp

import numpy as np

from .core import HarnessError

RUN, CLOSE, TERMINATE, JOINED = "RUN", "CLOSE", "TERMINATE", "JOINED"


class SimDeadlock(Exception):
    """The main thread waits for something no enabled event can produce: the real
    system would hang here."""


class _Task:
    __slots__ = ("tid", "func", "args", "kwds", "payload", "callback", "error_callback",
                 "state", "worker", "ok", "value", "delivered", "pickle_error", "group")

    def __init__(self, tid, func, args, kwds, callback, error_callback):
        self.tid = tid
        self.func, self.args, self.kwds = func, args, kwds
        self.payload = None
        self.callback, self.error_callback = callback, error_callback
        self.state = "queued"      # queued -> running -> done -> delivered
        self.worker = None
        self.ok = None
        self.value = None
        self.delivered = False
        self.pickle_error = None
        self.group = None


class _Worker:
    def __init__(self, wid, np_state, py_state):
        self.wid = wid
        self.np_state = np_state
        self.py_state = py_state
        self.task = None
        self.ran = 0
        self.cold = False


class SimAsyncResult:
    def __init__(self, pool, task):
        self._pool, self._task = pool, task

    def ready(self):
        # polling is a scheduling point: while the main thread looks, workers make progress
        self._pool._tick("ready")
        return self._task.delivered

    def successful(self):
        if not self._task.delivered:
            raise ValueError("{0!r} not ready".format(self))
        return bool(self._task.ok)

    # Timed waits.  There is no clock in the simulation, so a timeout is modelled by its intent: a short one
    # (< POLL_TIMEOUT seconds) is a poll - the scheduler fires 0..2 events and the wait may time out, a scheduling
    # decision; a long one is a safety net - it behaves like a blocking wait and fires only when nothing can make
    # progress any more (where a blocking wait would be a deadlock).
    POLL_TIMEOUT = 1.0

    def wait(self, timeout=None):
        if timeout is not None and timeout < self.POLL_TIMEOUT:
            if not self._task.delivered:
                self._pool._tick("wait_timeout")
            return
        self._pool._await(lambda: self._task.delivered, "wait", self._task.tid, timeout)

    def get(self, timeout=None):
        if timeout is not None and timeout < self.POLL_TIMEOUT:
            if not self._task.delivered:
                self._pool._tick("get_timeout")
        else:
            self._pool._await(lambda: self._task.delivered, "get", self._task.tid, timeout)
        if not self._task.delivered:
            import multiprocessing
            raise multiprocessing.TimeoutError
        if self._task.ok:
            return self._task.value
        raise self._task.value


class _MapResult:
    def __init__(self, pool, results, callback, error_callback):
        self._pool, self._results = pool, results
        self._callback, self._error_callback = callback, error_callback
        self._fired = False

    def ready(self):
        return all(r.ready() for r in self._results)

    def successful(self):
        if not self.ready():
            raise ValueError("not ready")
        return all(r._task.ok for r in self._results)

    def wait(self, timeout=None):
        for r in self._results:
            r.wait(timeout)

    def get(self, timeout=None):
        self.wait(timeout)
        out = []
        for r in self._results:
            if not r._task.ok:
                if self._error_callback and not self._fired:
                    self._fired = True
                    self._error_callback(r._task.value)
                raise r._task.value
            out.append(r._task.value)
        if self._callback and not self._fired:
            self._fired = True
            self._callback(out)
        return out


class SimPool:
    """Deterministic model of multiprocessing.Pool (fork start method)."""

    def __init__(self, sim, processes=None, initializer=None, initargs=(),
                 maxtasksperchild=None, context=None):
        self.sim = sim
        if processes is None:
            processes = os.cpu_count() or 1
        if processes < 1:
            raise ValueError("Number of processes must be at least 1")
        if initializer is not None and not callable(initializer):
            raise TypeError("initializer must be a callable")
        self.nproc = int(processes)
        self.state = RUN
        self.closed_before_join = False
        self.tasks = []
        self.queue = []
        self.pool_id = len(sim.pools)
        sim.pools.append(self)
        np_state = np.random.get_state()
        py_state = _pyrandom.getstate()
        self.workers = [_Worker(w, copy.deepcopy(np_state), py_state) for w in range(self.nproc)]
        if sim.cold_cache:
            for w in self.workers:
                w.cold = True
        sim.log("pool_create", pool=self.pool_id, workers=self.nproc)
        if initializer is not None:
            for w in self.workers:
                self._in_worker(w, lambda: initializer(*initargs))

    # -- public surface ---------------------------------------------------
    def apply(self, func, args=(), kwds={}):
        return self.apply_async(func, args, kwds).get()

    def apply_async(self, func, args=(), kwds={}, callback=None, error_callback=None):
        self._check_running()
        t = _Task(len(self.tasks), func, args, kwds, callback, error_callback)
        self.tasks.append(t)
        self.sim.log("submit", pool=self.pool_id, task=t.tid)
        if self.sim.direct:
            t.payload = None
        elif self.sim.chooser.flag(self.sim.eager_pickle_p, "pickle"):
            self._pickle_task(t, "submit")
        else:
            self.sim.probe("lazy_pickle")
        self.queue.append(t)
        return SimAsyncResult(self, t)

    def map(self, func, iterable, chunksize=None):
        return self.map_async(func, iterable, chunksize).get()

    def map_async(self, func, iterable, chunksize=None, callback=None, error_callback=None):
        self._check_running()
        rs = [self.apply_async(func, (x,)) for x in list(iterable)]
        return _MapResult(self, rs, callback, error_callback)

    def starmap(self, func, iterable, chunksize=None):
        return self.starmap_async(func, iterable, chunksize).get()

    def starmap_async(self, func, iterable, chunksize=None, callback=None, error_callback=None):
        self._check_running()
        rs = [self.apply_async(func, tuple(x)) for x in list(iterable)]
        return _MapResult(self, rs, callback, error_callback)

    def imap(self, func, iterable, chunksize=1):
        self._check_running()
        rs = [self.apply_async(func, (x,)) for x in list(iterable)]

        def gen():
            for r in rs:
                yield r.get()
        return gen()

    def imap_unordered(self, func, iterable, chunksize=1):
        self._check_running()
        rs = [self.apply_async(func, (x,)) for x in list(iterable)]

        def gen():
            pending = list(rs)
            while pending:
                self._await(lambda: any(r._task.delivered for r in pending), "imap_unordered", -1, None)
                done = [r for r in pending if r._task.delivered]
                r = done[0]
                pending.remove(r)
                yield r.get()
        return gen()

    def close(self):
        self.sim.log("close", pool=self.pool_id)
        if self.state == RUN:
            self.state = CLOSE
            self.closed_before_join = True

    def terminate(self):
        self.sim.log("terminate", pool=self.pool_id, queued=len(self.queue))
        self.state = TERMINATE
        # queued tasks are dropped, running ones are killed: their results never arrive
        self.queue = []
        for w in self.workers:
            w.task = None

    def join(self):
        if self.state == RUN:
            raise ValueError("Pool is still running")
        if self.state in (CLOSE,):
            # workers exit once the queue is drained
            self._await(lambda: not self.queue and all(w.task is None for w in self.workers),
                        "join", -1, None)
            self.state = JOINED
        self.sim.log("join", pool=self.pool_id)

    def __enter__(self):
        self._check_running()
        return self

    def __exit__(self, exc_type, exc_val, exc_tb):
        self.terminate()

    def __reduce__(self):
        raise NotImplementedError("pool objects cannot be passed between processes or pickled")

    # -- internals ----------------------------------------------------------
    def released(self):
        return self.state in (JOINED, TERMINATE)

    def _check_running(self):
        if self.state != RUN:
            raise ValueError("Pool not running")

    def _pickle_task(self, t, when):
        try:
            t.payload = pickle.dumps((t.func, t.args, t.kwds), protocol=pickle.HIGHEST_PROTOCOL)
        except Exception as e:  # real pool: the task handler sets the job's result to this error
            t.pickle_error = e
        self.sim.log("pickle", pool=self.pool_id, task=t.tid, when=when)

    def _enabled(self):
        ev = []
        if self.state != TERMINATE:
            if self.queue:
                for w in self.workers:
                    if w.task is None:
                        ev.append(("start", w.wid, self.queue[0].tid))
            for w in self.workers:
                if w.task is not None:
                    ev.append(("finish", w.wid, w.task.tid))
        return ev

    def _tick(self, why):
        """The main thread yields without blocking (poll, timed wait, sleep): the scheduler
        may fire some enabled events - how many is a scheduling decision."""
        self.sim.probe("poll_" + why)
        self.polls = getattr(self, "polls", 0) + 1
        if self.polls > 200000:
            raise HarnessError("main thread polls the pool without end")
        if not self._enabled():
            # the main thread keeps polling although nothing can make progress any more: a busy-wait hang
            self.dead_polls = getattr(self, "dead_polls", 0) + 1
            if self.dead_polls > 2000:
                self.sim.log("deadlock", pool=self.pool_id, waiting="poll:" + why, task=-1)
                self.sim.deadlocks += 1
                raise SimDeadlock(f"main thread keeps polling ({why}) although no event is enabled "
                                  f"(pool state {self.state}): the real system would spin for ever")
        else:
            self.dead_polls = 0
        n = self.sim.chooser.choose(3, "tick")        # 0, 1 or 2 events
        # fairness: real workers do make progress while the main thread polls
        self.idle_ticks = getattr(self, "idle_ticks", 0) + 1 if n == 0 else 0
        if self.idle_ticks >= 3:
            n, self.idle_ticks = 1, 0
        for _ in range(n):
            ev = self._enabled()
            if not ev:
                return
            self._fire(ev[self.sim.chooser.choose(len(ev), "sched")])

    def _await(self, cond, what, tid, timeout):
        steps = 0
        while not cond():
            ev = self._enabled()
            if not ev:
                if timeout is not None:
                    return
                self.sim.log("deadlock", pool=self.pool_id, waiting=what, task=tid)
                self.sim.deadlocks += 1
                raise SimDeadlock(f"main thread blocked in {what}(task {tid}) with no enabled event "
                                  f"(pool state {self.state})")
            c = self.sim.chooser.choose(len(ev), "sched")
            self._fire(ev[c])
            steps += 1
            if steps > 100000:
                raise HarnessError("SimPool scheduler did not make progress")

    def _fire(self, ev):
        kind, wid, tid = ev
        w = self.workers[wid]
        t = self.tasks[tid]
        if kind == "start":
            self.queue.pop(0)
            if t.payload is None and t.pickle_error is None and not self.sim.direct:
                self._pickle_task(t, "start")
            t.state, t.worker, w.task = "running", wid, t
            self.sim.log("start", pool=self.pool_id, task=tid, worker=wid)
            return
        # finish: the real task function runs here, in-process, in the worker's private state
        w.task = None
        if t.pickle_error is not None:
            t.ok, t.value = False, t.pickle_error
        else:
            if self.sim.direct:
                func, args, kwds = t.func, t.args, t.kwds
            else:
                func, args, kwds = pickle.loads(t.payload)
            try:
                val = self._in_worker(w, lambda: func(*args, **kwds))
                ok = True
            except Exception as e:
                val, ok = e, False
            if not self.sim.direct:
                try:
                    val = pickle.loads(pickle.dumps(val, protocol=pickle.HIGHEST_PROTOCOL))
                except Exception as e:
                    ok = False
                    val = _mpp.MaybeEncodingError(e, val)
            t.ok, t.value = ok, val
        w.ran += 1
        t.state = "done"
        self.sim.finish_order.append((self.pool_id, tid))
        self.sim.log("finish", pool=self.pool_id, task=tid, worker=wid, ok=bool(t.ok))
        # result handler thread delivers it (callbacks run there)
        t.delivered = True
        self.sim.log("deliver", pool=self.pool_id, task=tid)
        if t.ok and t.callback is not None:
            t.callback(t.value)
        if (not t.ok) and t.error_callback is not None:
            t.error_callback(t.value)

    def _in_worker(self, w, thunk):
        """Run thunk with worker w's private RNG state (fork semantics) and cache temperature."""
        main_np = np.random.get_state()
        main_py = _pyrandom.getstate()
        np.random.set_state(w.np_state)
        _pyrandom.setstate(w.py_state)
        if w.cold:
            self.sim.clear_caches()
            self.sim.probe("cold_cache_worker")
            w.cold = False
        self.sim.in_worker += 1
        try:
            return thunk()
        finally:
            self.sim.in_worker -= 1
            w.np_state = np.random.get_state()
            w.py_state = _pyrandom.getstate()
            np.random.set_state(main_np)
            _pyrandom.setstate(main_py)


class TimeShim:
    """Stands in for the `time` module inside fast_ticc: sleep() is a scheduling point of
    the simulator (no real time passes), the clocks advance by the simulated amount."""

    def __init__(self, sim, real):
        self.__dict__["_sim"] = sim
        self.__dict__["_real"] = real
        self.__dict__["_now"] = 1.0e9

    def sleep(self, seconds):
        self.__dict__["_now"] += max(0.0, float(seconds))
        self._sim.probe("simulated_sleep")
        for p in self._sim.pools:
            p._tick("sleep")

    def time(self):
        self.__dict__["_now"] += 1e-6
        return self._now

    def monotonic(self):
        return self.time()

    def perf_counter(self):
        return self.time()

    def __getattr__(self, name):
        return getattr(self._real, name)


class MultiprocessingShim:
    """Stands in for the `multiprocessing` module inside fast_ticc: Pool(...) gives a
    SimPool, everything else is delegated to the real module."""

    def __init__(self, sim, real):
        self.__dict__["_sim"] = sim
        self.__dict__["_real"] = real

    def Pool(self, processes=None, initializer=None, initargs=(), maxtasksperchild=None):
        return SimPool(self._sim, processes, initializer, initargs, maxtasksperchild)

    def get_context(self, method=None):
        return self

    def __getattr__(self, name):
        return getattr(self._real, name)
