"""Swarm workload: one configuration per seed, everything varied.

A *case* is a JSON-serialisable dict that fully determines one simulated call
(or a short history of calls): data recipe, hyper-parameters and their forms,
RNG seeds, pool/scheduler decisions, donor-draw mode, faults.  `materialise`
turns the recipe into the actual Python objects handed to the front end.
"""

import copy

import numpy as np

from .core import H, rng

# ---------------------------------------------------------------------------
# data

def make_series(recipe, idx=0):
    """Piecewise-stationary Gaussian series from a recipe."""
    g = np.random.Generator(np.random.PCG64(H(recipe["seed"], "series", idx)))
    n = recipe["N"]
    length = recipe["lengths"][idx]
    regimes = recipe["regimes"]
    gm = np.random.Generator(np.random.PCG64(H(recipe["seed"], "model")))
    means = gm.normal(0.0, recipe.get("sep", 3.0), size=(regimes, n))
    mats = []
    for _ in range(regimes):
        a = gm.normal(0.0, 1.0, size=(n, n))
        mats.append(a @ a.T / n + 0.2 * np.eye(n))
    chol = [np.linalg.cholesky(m) for m in mats]
    out = np.zeros((length, n))
    t = 0
    reg = int(g.integers(regimes))
    min_seg = max(2, recipe.get("min_seg", 8))
    while t < length:
        seg = int(g.integers(min_seg, 4 * min_seg))
        seg = min(seg, length - t)
        z = g.normal(size=(seg, n))
        out[t:t + seg] = means[reg] + recipe.get("noise", 1.0) * (z @ chol[reg].T)
        t += seg
        reg = int((reg + 1 + g.integers(max(1, regimes - 1))) % regimes)
    scale_exp = recipe.get("scale_exp")
    if scale_exp:
        out = out * (10.0 ** np.asarray(scale_exp, dtype=float))[None, :]
    shift = recipe.get("shift")
    if shift:
        out = out + np.asarray(shift, dtype=float)[None, :]
    if recipe.get("const_sensor") is not None and n > 1:
        out[:, recipe["const_sensor"]] = 1.5
    if recipe.get("dup_rows"):
        k = max(2, length // 4)
        out[length // 2: length // 2 + k] = out[length // 2]
    dt = recipe.get("dtype", "float64")
    if dt == "float32":
        out = out.astype(np.float32)
    elif dt == "int":
        out = np.round(out * 8).astype(np.int64)
    layout = recipe.get("layout", "C")
    if layout == "F":
        out = np.asfortranarray(out)
    elif layout == "strided":
        big = np.zeros((2 * length, 2 * n), dtype=out.dtype)
        big[::2, ::2] = out
        out = big[::2, ::2]
    elif layout == "readonly":
        out = np.ascontiguousarray(out)
        out.setflags(write=False)
    return out


def make_data(recipe, front):
    series = [make_series(recipe, i) for i in range(len(recipe["lengths"]))]
    if front == "single":
        return series[0]
    return series


def scalar_form(form, value):
    if form == "int":
        return int(value)
    if form == "float":
        return float(value)
    if form == "np.float64":
        return np.float64(value)
    if form == "np.float32":
        return np.float32(value)
    if form == "np.float16":
        return np.float16(value)
    if form == "np.int64":
        return np.int64(value)
    if form == "np.int32":
        return np.int32(value)
    if form in ("np.int8", "np.int16", "np.uint8", "np.uint16", "np.uint32", "np.uint64", "np.longdouble"):
        return getattr(np, form[3:])(value)
    raise ValueError(form)


def _layout(a, layout):
    if layout == "F":
        a = np.asfortranarray(a)
    elif layout == "strided":
        big = np.zeros(tuple(2 * d for d in a.shape), dtype=a.dtype)
        sl = tuple(slice(None, None, 2) for _ in a.shape)
        big[sl] = a
        a = big[sl]
    elif layout == "readonly":
        a = np.ascontiguousarray(a)
        a.setflags(write=False)
    elif layout == "F_readonly":
        a = np.asfortranarray(a)
        a.setflags(write=False)
    return a


def make_lambda(spec, nw):
    form = spec["form"]
    if form == "matrix_const":
        return _layout(np.full((nw, nw), float(spec["value"])), spec.get("layout"))
    if form == "matrix_sym":
        g = np.random.Generator(np.random.PCG64(H(spec["seed"], "lambda")))
        a = g.uniform(0.2, 1.8, size=(nw, nw)) * float(spec["value"])
        return _layout((a + a.T) / 2, spec.get("layout"))
    return scalar_form(form, spec["value"])


def make_beta(spec, npoints):
    form = spec["form"]
    if form == "vector_const":
        return _layout(np.full((npoints,), float(spec["value"])), spec.get("layout"))
    if form == "vector_rand":
        g = np.random.Generator(np.random.PCG64(H(spec["seed"], "beta")))
        return _layout(g.uniform(0.0, 2.0, size=(npoints,)) * float(spec["value"]), spec.get("layout"))
    return scalar_form(form, spec["value"])


def stacked_points(case):
    w = case["args"]["window_size"]
    return sum(length - w + 1 for length in case["data"]["lengths"])


def materialise(case):
    """(data, kwargs) for the front end named by case['front']."""
    a = case["args"]
    n = case["data"]["N"]
    w = a["window_size"]
    data = make_data(case["data"], case["front"])
    kwargs = dict(
        window_size=w,
        num_clusters=a["num_clusters"],
        sparsity_weight=make_lambda(a["sparsity_weight"], n * w),
        label_switching_cost=make_beta(a["label_switching_cost"], stacked_points(case)),
        iteration_limit=a["iteration_limit"],
        min_meaningful_covariance=scalar_form(a["min_meaningful_covariance"]["form"],
                                              a["min_meaningful_covariance"]["value"]),
        num_processors=a["num_processors"],
        min_cluster_size=a["min_cluster_size"],
        biased_covariance=a["biased_covariance"],
    )
    return data, kwargs


# ---------------------------------------------------------------------------
# generation

DEFAULT_PROFILE = dict(
    N=(1, 3), W=(1, 5), K=(2, 5), T=(None, 120), max_nw=8, big_nw_p=0.05,
    front_joint_p=0.3, max_series=4,
    beta_values=(0, 0.5, 2, 5, 20, 200, 1e5),
    beta_forms=("int", "float"),
    lambda_values=(0.0, 0.01, 0.11, 0.11, 0.5, 0.5, 2.0),
    lambda_forms=("float",),
    mmc_values=(0,),
    limits=(1, 2, 3, 5, 50),
    min_cluster_sizes=(1, 2, 3, 5, 20),
    biased=(False, True),
    num_processors=(1, 8),
    mp_switch_p=0.5,
    extreme_scale_p=0.0,
    knob_p=0.15,
    adversarial_donor_p=0.5,
)


def gen_case(prop, seed, profile=None, **over):
    p = dict(DEFAULT_PROFILE)
    if profile:
        p.update(profile)
    p.update(over)
    r = rng(seed, prop, "config")
    while True:
        n = r.randint(*p["N"])
        w = r.randint(*p["W"])
        if n * w <= p["max_nw"] or r.random() < p["big_nw_p"]:
            break
    k = r.randint(*p["K"])
    joint = r.random() < p["front_joint_p"]
    nser = r.randint(1, p["max_series"]) if joint else 1
    tmin = w + k + 2
    tmax = max(tmin + 5, p["T"][1])
    lengths = []
    for j in range(nser):
        if joint and nser >= 2 and r.random() < p.get("short_series_p", 0.2):
            # a series with fewer than W full windows (only the total has to feed the mixture model)
            lengths.append(r.randint(w, max(w, 2 * w - 1)))
        elif r.random() < 0.15:
            lengths.append(r.randint(tmin, tmin + 6))
        else:
            lengths.append(r.randint(tmin + 6, max(tmin + 7, tmax // nser)))
    if sum(x - w + 1 for x in lengths) < k + 4:
        lengths[0] += k + 4
    regimes = r.randint(1, 4)
    data = dict(seed=H(seed, prop, "data"), N=n, lengths=lengths, regimes=regimes,
                sep=r.choice([0.0, 1.0, 3.0, 6.0]), min_seg=r.choice([3, 8, 15]))
    if r.random() < p["extreme_scale_p"]:
        lo, hi = p.get("scale_exp_range", (-6, 6))
        data["scale_exp"] = [r.uniform(lo, hi) for _ in range(n)]
    if n > 1 and r.random() < p.get("mixed_units_p", 0.0):
        # columns in very different units: one sensor 10^3..10^6 times the others
        exps = [0.0] * n
        exps[r.randrange(n)] = float(r.choice([3, 4, 5, 5, 6]))
        data["scale_exp"] = exps
    if r.random() < p["knob_p"] and n > 1:
        data["const_sensor"] = r.randrange(n)
    if r.random() < p["knob_p"]:
        data["dup_rows"] = True
    if r.random() < p["knob_p"]:
        data["layout"] = r.choice(["F", "strided", "readonly"])
    if r.random() < p["knob_p"] * 0.5:
        data["dtype"] = r.choice(["float32", "int"])
    if r.random() < p["knob_p"]:
        data["shift"] = [r.choice([0.0, 10.0, -100.0, 1000.0]) for _ in range(n)]
    bform = r.choice(p["beta_forms"])
    bval = r.choice(p["beta_values"])
    if bform in ("int", "np.int64", "np.int32", "np.int8", "np.int16", "np.uint8", "np.uint16", "np.uint32", "np.uint64"):
        bval = int(round(bval))
    lform = r.choice(p["lambda_forms"])
    args = dict(
        window_size=w, num_clusters=k,
        sparsity_weight=dict(form=lform, value=r.choice(p["lambda_values"]), seed=H(seed, "lam")),
        label_switching_cost=dict(form=bform, value=bval, seed=H(seed, "beta")),
        iteration_limit=r.choice(p["limits"]),
        min_meaningful_covariance=dict(form="float" if True else "int", value=r.choice(p["mmc_values"])),
        num_processors=r.randint(*p["num_processors"]),
        min_cluster_size=r.choice(p["min_cluster_sizes"]),
        biased_covariance=r.choice(p["biased"]),
    )
    case = dict(
        prop=prop, seed=seed, front="joint" if joint else "single",
        data=data, args=args,
        np_seed=H(seed, "np") % (2 ** 32), py_seed=H(seed, "py"),
        mp_switch=r.random() < p["mp_switch_p"],
        pool=dict(kind="sim", sched_seed=H(seed, "sched"),
                  bias=r.choice(["fifo", "lifo", "uniform"]),
                  eager_pickle_p=r.choice([0.0, 0.5, 1.0]),
                  cold_cache=r.random() < 0.3, choices=None, direct=False),
        donor=dict(mode="adversarial" if r.random() < p["adversarial_donor_p"] else "plain",
                   seed=H(seed, "donor"), draws=None),
        faults=[], history=[],
    )
    return case


def clone(case):
    return copy.deepcopy(case)


def brief(case):
    """Short human-readable summary of a case for evidence samples."""
    a = case["args"]
    d = case["data"]
    return dict(seed=case["seed"], front=case["front"], N=d["N"], lengths=d["lengths"],
                W=a["window_size"], K=a["num_clusters"],
                lam=[a["sparsity_weight"]["form"], a["sparsity_weight"]["value"]],
                beta=[a["label_switching_cost"]["form"], a["label_switching_cost"]["value"]],
                limit=a["iteration_limit"], m=a["min_cluster_size"],
                biased=a["biased_covariance"], mmc=a["min_meaningful_covariance"]["value"],
                P=a["num_processors"], mp=case["mp_switch"],
                pool={k: v for k, v in case["pool"].items() if k != "choices"},
                donor=case["donor"]["mode"], faults=case["faults"],
                knobs={k: d[k] for k in ("scale_exp", "const_sensor", "dup_rows", "layout", "dtype", "shift", "noise")
                       if k in d})
