"""Container-level state machines (C08, C13): plain engines that apply recorded
operations to real fast_ticc objects, with Hypothesis generating and shrinking the
operation sequences.  The replay file is the recorded operation list; replay does
not involve Hypothesis."""

import copy
import random as _pyrandom

import numpy as np

from . import core, oracles, runner, simpool
from .reference import repop_capacity


class Violation(Exception):
    def __init__(self, key, detail, ops):
        super().__init__(f"{key}: {detail}")
        self.key, self.detail, self.ops = key, detail, list(ops)


# ---------------------------------------------------------------------------
# repopulation predicates (shared with the run-level oracle)

def repop_check(before_labels, after_labels, spreads, m, k, raised=None):
    """Predicates of C08 over (labels before, labels after, m, spreads).
    Returns [(key, detail)].  `raised` is the exception (type name, message) if the call raised."""
    f = []
    sizes = [0] * k
    for lab in before_labels:
        sizes[lab] += 1
    needy = [j for j in range(k) if sizes[j] < 2]
    cap = repop_capacity(sizes, m)
    if raised is not None:
        if raised[0] != "RuntimeError":
            f.append(("C08:wrong_error", f"repopulation raised {raised[0]}: {raised[1][:120]} (sizes {sizes}, m={m})"))
        elif not needy:
            f.append(("C08:raised_needlessly", f"raised although no cluster has fewer than 2 points (sizes {sizes})"))
        elif cap >= len(needy):
            f.append(("C08:raised_despite_capacity", f"raised although donors can serve {cap} refill(s) and {len(needy)} "
                                                    f"are needed (sizes {sizes}, m={m})"))
        return f
    if len(after_labels) != len(before_labels):
        return [("C08:point_lost", f"{len(before_labels)} labels before, {len(after_labels)} after")]
    bad = [x for x in after_labels if not (0 <= x < k)]
    if bad:
        return [("C08:label_range", f"label {bad[0]} outside [0,{k}) after repopulation")]
    if not needy:
        if list(after_labels) != list(before_labels):
            f.append(("C08:changed_without_need", f"labels changed although every cluster has >= 2 points (sizes {sizes})"))
        return f
    if cap < len(needy):
        f.append(("C08:no_error", f"returned although donors can serve only {cap} of {len(needy)} refills "
                                  f"(sizes {sizes}, m={m})"))
        return f
    after_sizes = [0] * k
    for lab in after_labels:
        after_sizes[lab] += 1
    moved = [(i, a, b) for i, (a, b) in enumerate(zip(before_labels, after_labels)) if a != b]
    donors = sorted({a for _, a, _ in moved})
    for j in needy:
        if after_sizes[j] != sizes[j] + m:
            f.append(("C08:refill_size", f"cluster {j} had {sizes[j]} point(s) and now has {after_sizes[j]}, expected "
                                         f"{sizes[j] + m} (exactly m={m} per refill)"))
    for d in donors:
        if sizes[d] < 2 * m:
            f.append(("C08:ineligible_donor", f"cluster {d} gave points away with only {sizes[d]} < 2m={2 * m} points"))
        if after_sizes[d] < m:
            f.append(("C08:donor_starved", f"donor {d} keeps {after_sizes[d]} < m={m} points (had {sizes[d]})"))
    for i, a, b in moved:
        if b not in needy:
            f.append(("C08:wrong_recipient", f"point {i} moved from {a} to {b}, which was not under-populated"))
            break
        if a in needy:
            f.append(("C08:wrong_donor", f"point {i} was taken from under-populated cluster {a}"))
            break
    for j in range(k):
        if j not in needy and j not in donors and after_sizes[j] != sizes[j]:
            f.append(("C08:bystander_touched", f"cluster {j} is neither donor nor recipient but its size changed"))
    # donor order: decreasing spread; ties accept either order
    eligible = [j for j in range(k) if sizes[j] >= 2 * m]
    for d in donors:
        for h in eligible:
            if spreads[h] > spreads[d] and after_sizes[h] >= 2 * m and h != d:
                f.append(("C08:donor_order", f"cluster {d} (spread {spreads[d]:.4g}) gave points while cluster {h} "
                                             f"(spread {spreads[h]:.4g}) could still give (keeps {after_sizes[h]} >= 2m)"))
                break
    return oracles.dedupe(f)


def c08_run(out, rec=None):
    """The C08 predicates on every repopulation event of a traced run."""
    from . import trace
    f = []
    k = out.case["args"]["num_clusters"]
    m = out.case["args"]["min_cluster_size"]
    for p in trace.phases(out, "repopulate"):
        s_in = trace.first_state(p)
        if s_in is None or s_in["labels"] is None:
            continue
        spreads = []
        for c in s_in["clusters"]:
            spreads.append(float(np.linalg.norm(c["ccov"])) if c["ccov"] is not None and np.all(np.isfinite(c["ccov"]))
                           else float("nan"))
        if any(np.isnan(s) for s in spreads):
            if rec is not None:
                rec.skip("c08_nonfinite_spread")
            continue
        if p.get("exc") is not None:
            res = repop_check(s_in["labels"], None, spreads, m, k, raised=p["exc"])
            if rec is not None:
                rec.probe("repop_event_raised")
        elif "out" in p:
            res = repop_check(s_in["labels"], p["out"]["labels"], spreads, m, k)
            after = trace.first_state_after(p)
            if after is not None and oracles.state_diff(s_in, after):
                res.append(("C08:input_mutated", f"repopulation modified the state it was given: "
                                                 f"{oracles.state_diff(s_in, after)[:3]}"))
            if rec is not None and p["out"]["labels"] != s_in["labels"]:
                rec.probe("repop_event_moved_points")
                sz = [len(c["members"]) for c in s_in["clusters"]]
                if sum(1 for s in sz if s < 2) >= 2:
                    rec.probe("repop_event_two_refills")
                if any(s == 1 for s in sz):
                    rec.probe("repop_event_one_point_cluster")
        else:
            continue
        for key, d in res:
            f.append((key, f"round {p['round']}: {d}"))
    return oracles.dedupe(f)


# ---------------------------------------------------------------------------
# C08 engine

class RepopEngine:
    """Applies operations to a real ModelState and checks the C08 predicates."""

    def __init__(self):
        core.load_fast_ticc()
        from fast_ticc.containers import arguments, model_state
        import fast_ticc.cluster_maintenance as cm
        self.arguments, self.model_state, self.cm = arguments, model_state, cm
        self.ops = []
        self.model = None
        self.stats = {}

    def stat(self, name):
        self.stats[name] = self.stats.get(name, 0) + 1

    def apply(self, op):
        self.ops.append(op)
        kind = op[0]
        if kind == "init":
            _, k, m = op
            self.k, self.m = k, m
            self.spreads = [1.0] * k
            self.model = None
        elif kind == "labels":
            _, sizes, layout, seed = op
            labels = []
            for j, s in enumerate(sizes[:self.k]):
                labels += [j] * s
            if layout == "shuffled":
                _pyrandom.Random(seed).shuffle(labels)
            if not labels:
                labels = [0]
            args = self.arguments.UserArguments(
                sparsity_weight=0.1, iteration_limit=10, label_switching_cost=1.0, min_cluster_size=self.m,
                min_meaningful_covariance=0, num_clusters=self.k, num_processors=1, window_size=1,
                biased_covariance=False)
            model = self.model_state.ModelState.empty_model(args, np.zeros((len(labels), 2)))
            model.point_labels = labels
            self.model = model
            self._apply_spreads()
        elif kind == "spreads":
            self.spreads = [float(s) for s in op[1][:self.k]] + [1.0] * max(0, self.k - len(op[1]))
            self._apply_spreads()
        elif kind == "m":
            self.m = op[1]
            if self.model is not None:
                self.model.arguments.min_cluster_size = self.m
        elif kind == "repop":
            if self.model is not None:
                self._repop(op[1])
        else:
            raise core.HarnessError(f"unknown op {op}")

    def _apply_spreads(self):
        if self.model is None:
            return
        for c, s in zip(self.model.clusters, self.spreads):
            c.computed_covariance = np.eye(2) * s

    def _repop(self, draw_seed):
        model = self.model
        before = runner.snap_state(model)
        labels_before = list(before["labels"])
        spreads = [float(np.linalg.norm(c.computed_covariance)) for c in model.clusters]
        drng = _pyrandom.Random(draw_seed)
        draws = []

        def sample(population, k, **kw):
            population = list(population)
            style = drng.randrange(3)
            if style == 0:
                idx = list(range(k))
            elif style == 1:
                idx = list(range(len(population) - k, len(population)))[::-1]
            else:
                idx = drng.sample(range(len(population)), k)
            draws.append(idx)
            return [population[i] for i in idx]
        pat = core.Patcher()
        shim = runner._RandomShim(type("S", (), {"sample": staticmethod(sample)})(), _pyrandom)
        pat.replace_identity(_pyrandom, shim)
        pat.replace_identity(_pyrandom.sample, sample)
        raised = None
        new = None
        try:
            new = self.cm.repopulate_empty_clusters(model)
        except Exception as e:  # noqa: BLE001
            raised = (type(e).__name__, str(e))
        finally:
            pat.restore()
        after_in = runner.snap_state(model)
        d = oracles.state_diff(before, after_in)
        if d:
            raise Violation("C08:input_mutated", f"repopulation modified the state it was given: {d[:3]}", self.ops)
        sizes = [len(c["members"]) for c in before["clusters"]]
        if raised is not None:
            self.stat("repop_raised")
            res = repop_check(labels_before, None, spreads, self.m, self.k, raised=raised)
        else:
            labels_after = [int(x) for x in new.point_labels]
            res = repop_check(labels_before, labels_after, spreads, self.m, self.k)
            pr = oracles.partition_problems(runner.snap_state(new), self.k)
            if pr:
                res.append(("C08:partition", f"returned state: {pr[0]}"))
            if labels_after != labels_before:
                self.stat("repop_moved_points")
                after_sizes = [labels_after.count(j) for j in range(self.k)]
                if any(sizes[j] - after_sizes[j] >= 2 * self.m for j in range(self.k)):
                    self.stat("donor_served_twice")
                if any(s == 1 for s in sizes):
                    self.stat("one_point_cluster_refilled")
                elig = [spreads[j] for j in range(self.k) if sizes[j] >= 2 * self.m]
                if len(elig) != len(set(elig)):
                    self.stat("equal_spreads_among_donors")
            else:
                self.stat("repop_noop")
            self.model = new
        if res:
            key, detail = res[0]
            raise Violation(key, f"{detail} [sizes {sizes}, m={self.m}, spreads {spreads}]", self.ops)


# ---------------------------------------------------------------------------
# C13 engine

def _missing(x):
    return x is None or (isinstance(x, np.ndarray) and x.dtype == object)


class _DirectSim:
    """Minimal simulator state for a direct-mode SimPool used by the engine."""

    def __init__(self):
        self.pools, self.events, self.finish_order = [], [], []
        self.chooser = core.Chooser(seed=0, bias="fifo")
        self.eager_pickle_p, self.cold_cache, self.direct = 1.0, False, True
        self.in_worker, self.deadlocks = 0, 0

    def log(self, kind, **kw):
        self.events.append(kind)

    def probe(self, *a, **k):
        pass

    def clear_caches(self):
        pass


class StateEngine:
    """Applies container/phase operations and keeps every state ever produced."""

    MAX_STATES = 10

    def __init__(self):
        core.load_fast_ticc()
        from fast_ticc.containers import arguments, model_state
        import fast_ticc.cluster_maintenance as cm
        import fast_ticc.graphical_lasso as gl
        import fast_ticc.cluster_label_assignment as cla
        self.arguments, self.model_state = arguments, model_state
        self.cm, self.gl, self.cla = cm, gl, cla
        self.ops = []
        self.states = []      # live state objects
        self.snaps = []       # their last accepted snapshots
        self.stats = {}

    def stat(self, name):
        self.stats[name] = self.stats.get(name, 0) + 1

    def apply(self, op):
        self.ops.append(op)
        kind = op[0]
        if kind == "init":
            _, k, n, w, t, seed, lam_matrix, beta_vector = op
            g = np.random.Generator(np.random.PCG64(core.H(seed, "c13data")))
            self.k, self.t = k, t
            nw = n * w
            centres = g.normal(0, 3, size=(k, nw))
            self.data = np.vstack([centres[i % k] + g.normal(size=nw) for i in range(t)])
            lam = np.full((nw, nw), 0.5) if lam_matrix else 0.5
            beta = np.full((t,), 2.0) if beta_vector else 2.0
            args = self.arguments.UserArguments(
                sparsity_weight=lam, iteration_limit=5, label_switching_cost=beta, min_cluster_size=2,
                min_meaningful_covariance=0, num_clusters=k, num_processors=1, window_size=w, biased_covariance=False)
            m = self.model_state.ModelState.empty_model(args, self.data)
            m.point_labels = [int(i % k) for i in range(t)]
            self._add(m, "init")
            return
        if not self.states:
            return
        idx = (len(self.states) - 1 - op[1]) % len(self.states)      # op[1] = age: 0 is the newest state
        src = self.states[idx]
        src_snap = self.snaps[idx]
        tolerated = (np.linalg.LinAlgError, RuntimeError, AssertionError, FloatingPointError, ValueError, ZeroDivisionError)
        target = None
        try:
            if kind == "assign":
                if self._shares_clusters(idx):
                    self.stat("assign_skipped_shared")
                    self.ops.pop()
                    return
                _, _i, form, seed = op
                r = _pyrandom.Random(seed)
                if form == "equal":
                    labels = list(src.point_labels)
                elif form == "numpy":
                    labels = [np.int64(r.randrange(self.k)) for _ in range(self.t)]
                elif form == "one_cluster_empty":
                    labels = [r.randrange(max(1, self.k - 1)) for _ in range(self.t)]
                else:
                    labels = [r.randrange(self.k) for _ in range(self.t)]
                src.point_labels = labels
                target = idx
                self.stat("assign_" + form)
                snap = runner.snap_state(src)
                pr = oracles.partition_problems(snap, self.k)
                if pr:
                    raise Violation("C13:assign_membership", f"after assigning a labelling: {pr[0]}", self.ops)
                if snap["labels"] != [int(x) for x in labels]:
                    raise Violation("C13:assign_ignored", "the assigned labelling is not the state's labelling", self.ops)
            elif kind == "shallow":
                new = src.shallow_copy()
                self._add(new, "shallow")
                d = oracles.state_diff(src_snap, self.snaps[-1])
                if d:
                    raise Violation("C13:shallow_copy_differs", f"a shallow copy differs from its source in {d[:3]}", self.ops)
            elif kind == "deep":
                new = src.deep_copy()
                self._add(new, "deep")
                d = oracles.state_diff(src_snap, self.snaps[-1], r3=False)
                if d and not all(x.endswith(".inv") for x in d):
                    raise Violation("C13:deep_copy_differs", f"a deep copy differs from its source in {d[:3]}", self.ops)
                shared = self._shared_mutables(src, new)
                if shared:
                    raise Violation("C13:deep_copy_shares", f"a deep copy shares mutable objects with its source: "
                                                            f"{shared[:4]}", self.ops)
            elif kind == "repop":
                _, _i, draw_seed = op
                if any(c.size < 2 for c in src.clusters) and any(_missing(c.computed_covariance) for c in src.clusters):
                    # repopulation ranks donors by the spread of their fitted covariance: needs an optimised state
                    self.ops.pop()
                    return
                drng = _pyrandom.Random(draw_seed)

                def sample(population, k, **kw):
                    return drng.sample(list(population), k)
                pat = core.Patcher()
                pat.replace_identity(_pyrandom, runner._RandomShim(type("S", (), {"sample": staticmethod(sample)})(), _pyrandom))
                pat.replace_identity(_pyrandom.sample, sample)
                try:
                    new = self.cm.repopulate_empty_clusters(src)
                finally:
                    pat.restore()
                if new is not src:
                    self._add(new, "repop")
                else:
                    self.stat("repop_returned_input")
            elif kind == "stats":
                new = self.cm.update_all_cluster_statistics(src, self.data)
                self._add(new, "stats")
            elif kind == "optimise":
                if any(_missing(c.empirical_covariance) for c in src.clusters):
                    self.ops.pop()
                    return
                pool = simpool.SimPool(_DirectSim(), 1)
                new = self.gl.optimize_markov_random_fields(src, self.data, pool)
                self._add(new, "optimise")
            elif kind == "relabel":
                if any(_missing(c.train_inverse) or _missing(c.stacked_data_mean) for c in src.clusters):
                    self.ops.pop()
                    return
                new = self.cla.predict_cluster_labels(src, self.data)
                self._add(new, "relabel")
            else:
                raise core.HarnessError(f"unknown op {op}")
        except Violation:
            raise
        except tolerated as e:
            self.stat("op_raised_" + type(e).__name__)
        self._check_unchanged(except_idx=target, after=kind)

    def _add(self, state, how):
        self.stat("state_from_" + how)
        snap = runner.snap_state(state)
        pr = oracles.partition_problems(snap, self.k)
        if pr:
            raise Violation("C13:partition", f"state produced by {how}: {pr[0]}", self.ops)
        self.states.append(state)
        self.snaps.append(snap)
        if len(self.states) > self.MAX_STATES:
            self.states.pop(0)
            self.snaps.pop(0)

    def _shares_clusters(self, idx):
        mine = {id(c) for c in self.states[idx].clusters}
        for j, s in enumerate(self.states):
            if j != idx and (mine & {id(c) for c in s.clusters}):
                return True
        # sharing only the label LIST with another state is no obstacle: the setter rebinds the attribute and
        # re-derives membership on this state's own cluster objects
        return False

    def _check_unchanged(self, except_idx, after):
        for j, (s, old) in enumerate(zip(self.states, self.snaps)):
            new = runner.snap_state(s)
            if j == except_idx:
                self.snaps[j] = new
                continue
            d = oracles.state_diff(old, new)
            if d:
                raise Violation(f"C13:state_changed:{after}",
                                f"state #{j} (produced earlier) changed during '{after}': {d[:4]}", self.ops)
            self.snaps[j] = new

    @staticmethod
    def _shared_mutables(a, b):
        def walk(m):
            objs = {}
            objs["labels"] = m.point_labels
            objs["clusters_list"] = m.clusters
            objs["arguments"] = m.arguments
            for name in ("sparsity_weight", "label_switching_cost"):
                v = getattr(m.arguments, name)
                if isinstance(v, (np.ndarray, list)):
                    objs["arguments." + name] = v
            for name in ("stacked_training_data", "point_log_likelihood"):
                v = getattr(m, name, None)
                if isinstance(v, np.ndarray) and v.dtype != object:
                    objs[name] = v
            for i, c in enumerate(m.clusters):
                objs[f"cluster{i}"] = c
                objs[f"cluster{i}.members"] = c.member_points
                for attr in ("computed_covariance", "empirical_covariance", "inverse_covariance",
                             "stacked_data_mean", "train_inverse"):
                    v = getattr(c, attr, None)
                    if isinstance(v, np.ndarray) and v.dtype != object and v.ndim > 0:
                        objs[f"cluster{i}.{attr}"] = v
            return objs
        oa, ob = walk(a), walk(b)
        ids_a = {id(v): k for k, v in oa.items()}
        shared = []
        for k, v in ob.items():
            if id(v) in ids_a:
                shared.append(k)
            elif isinstance(v, np.ndarray):
                for ka, va in oa.items():
                    if isinstance(va, np.ndarray) and np.shares_memory(v, va):
                        shared.append(k + "~" + ka)
                        break
        return shared


# ---------------------------------------------------------------------------
# Hypothesis drivers

def _settings(max_examples):
    from hypothesis import HealthCheck, settings
    return settings(max_examples=max_examples, database=None, deadline=None, report_multiple_bugs=False,
                    stateful_step_count=14, suppress_health_check=list(HealthCheck), print_blob=False)


def run_repop_machine(seed, max_examples):
    """Returns (stats, violation or None)."""
    from hypothesis import seed as hseed, strategies as st
    from hypothesis.stateful import RuleBasedStateMachine, initialize, rule, run_state_machine_as_test
    totals = {"examples": 0, "ops": 0}

    def size_strategy(m):
        edges = sorted({0, 1, 2, max(0, m - 1), m, 2 * m - 1, 2 * m, 3 * m - 1, 3 * m, 3 * m + 2})
        return st.one_of(st.sampled_from(edges), st.integers(0, 3 * m + 2))

    class Machine(RuleBasedStateMachine):
        def __init__(self):
            super().__init__()
            self.e = RepopEngine()
            totals["examples"] += 1

        @initialize(k=st.integers(2, 5), m=st.integers(1, 4))
        def init(self, k, m):
            self.e.apply(("init", k, m))

        @rule(data=st.data(), layout=st.sampled_from(["blocks", "shuffled"]), seed=st.integers(0, 2 ** 20))
        def relabel(self, data, layout, seed):
            sizes = [data.draw(size_strategy(self.e.m)) for _ in range(self.e.k)]
            self.e.apply(("labels", sizes, layout, seed))

        @rule(spreads=st.lists(st.sampled_from([0.5, 1.0, 1.0, 2.0, 3.0, 7.0]), min_size=5, max_size=5))
        def spreads(self, spreads):
            self.e.apply(("spreads", spreads))

        @rule(m=st.integers(1, 4))
        def change_m(self, m):
            self.e.apply(("m", m))

        @rule(seed=st.integers(0, 2 ** 20))
        def repopulate(self, seed):
            self.e.apply(("repop", seed))

        def teardown(self):
            totals["ops"] += len(self.e.ops)
            for k, v in self.e.stats.items():
                totals[k] = totals.get(k, 0) + v

    try:
        run_state_machine_as_test(hseed(seed)(Machine), settings=_settings(max_examples))
    except Violation as v:
        return totals, v
    return totals, None


def run_state_machine(seed, max_examples):
    from hypothesis import seed as hseed, strategies as st
    from hypothesis.stateful import RuleBasedStateMachine, initialize, rule, run_state_machine_as_test
    totals = {"examples": 0, "ops": 0}

    class Machine(RuleBasedStateMachine):
        def __init__(self):
            super().__init__()
            self.e = StateEngine()
            totals["examples"] += 1

        @initialize(k=st.integers(2, 3), shape=st.sampled_from([(1, 1), (2, 1), (1, 2)]), t=st.integers(8, 20),
                    seed=st.integers(0, 1000), lam_matrix=st.booleans(), beta_vector=st.booleans())
        def init(self, k, shape, t, seed, lam_matrix, beta_vector):
            self.e.apply(("init", k, shape[0], shape[1], t, seed, lam_matrix, beta_vector))

        age = st.sampled_from([0, 0, 0, 0, 1, 1, 2, 3, 5])

        @rule(i=age, form=st.sampled_from(["fresh", "equal", "numpy", "one_cluster_empty"]),
              seed=st.integers(0, 2 ** 20))
        def assign(self, i, form, seed):
            self.e.apply(("assign", i, form, seed))

        @rule(i=age)
        def shallow(self, i):
            self.e.apply(("shallow", i))

        @rule(i=age)
        def deep(self, i):
            self.e.apply(("deep", i))

        @rule(i=age, seed=st.integers(0, 2 ** 20))
        def repop(self, i, seed):
            self.e.apply(("repop", i, seed))

        @rule(i=age)
        def stats(self, i):
            self.e.apply(("stats", i))

        @rule(i=age)
        def optimise(self, i):
            self.e.apply(("optimise", i))

        @rule(i=age)
        def relabel(self, i):
            self.e.apply(("relabel", i))

        @rule(i=age)
        def full_round(self, i):
            # one fit-and-relabel round on a state: three engine operations
            self.e.apply(("stats", i))
            self.e.apply(("optimise", 0))
            self.e.apply(("relabel", 0))

        @rule(seed=st.integers(0, 2 ** 20), form=st.sampled_from(["one_cluster_empty", "fresh"]))
        def empty_then_repopulate(self, seed, form):
            self.e.apply(("deep", 0))
            self.e.apply(("assign", 0, form, seed))
            self.e.apply(("repop", 0, seed))

        def teardown(self):
            totals["ops"] += len(self.e.ops)
            for k, v in self.e.stats.items():
                totals[k] = totals.get(k, 0) + v

    try:
        run_state_machine_as_test(hseed(seed)(Machine), settings=_settings(max_examples))
    except Violation as v:
        return totals, v
    return totals, None


def replay_ops(engine_cls, ops):
    """Re-apply a recorded operation list; returns the Violation or None."""
    e = engine_cls()
    try:
        for op in ops:
            e.apply(tuple(op) if not isinstance(op, tuple) else op)
    except Violation as v:
        return v
    return None
