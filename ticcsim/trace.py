"""Helpers to read the recorded phase history of a simulated run."""

import numpy as np


def phases(out, name):
    return [p for p in out.sim.phases if p["name"] == name]


def completed(out, name):
    return [p for p in out.sim.phases if p["name"] == name and p.get("exc") is None
            and ("out" in p or "ret" in p)]


def rounds(out):
    return len(completed(out, "relabel"))


def first_state(p):
    """The (single) model-state argument snapshot of a phase record, before the call."""
    if not p["in"]:
        return None
    return p["in"][sorted(p["in"])[0]]


def first_state_after(p):
    if not p.get("in_after"):
        return None
    return p["in_after"][sorted(p["in_after"])[0]]


def repop_events(out):
    """Repopulation phases that actually changed labels."""
    ev = []
    for p in completed(out, "repopulate"):
        s_in = first_state(p)
        if "out" in p and s_in is not None and p["out"]["labels"] != s_in["labels"]:
            ev.append(p)
    return ev


def exit_reason(out):
    lim = out.case["args"]["iteration_limit"]
    r = rounds(out)
    rel = completed(out, "relabel")
    if r >= 2 and rel[-1]["out"]["labels"] == rel[-2]["out"]["labels"]:
        return "converged" if r < lim else "converged_at_limit"
    if r >= lim:
        return "limit"
    return "other"


def sizes(state_snap):
    return [len(c["members"]) for c in state_snap["clusters"]]


def final_state(out):
    rel = completed(out, "relabel")
    return rel[-1]["out"] if rel else None


def label_run_count(labels):
    n = 0
    last = None
    for x in labels:
        if x != last:
            n += 1
            last = x
    return n


def finish_signature(out):
    """Per pool: the order in which tasks finished, relative to submission order."""
    order = [t for (_, t) in out.sim.finish_order]
    return tuple(order)


def out_of_order(out):
    order = [t for (_, t) in out.sim.finish_order]
    return any(b < a for a, b in zip(order, order[1:]))


def history_signature(out):
    """Coarse signature of a run's history used to count distinct non-trivial cases."""
    a = out.case["args"]
    fs = final_state(out)
    empties = tuple(int(len(c["members"]) == 0) for c in fs["clusters"]) if fs else ()
    return [rounds(out), len(repop_events(out)), exit_reason(out), list(empties),
            a["num_clusters"], a["window_size"], out.case["data"]["N"], out.case["front"],
            len(out.case["data"]["lengths"])]


def stacked_data(out):
    fit = phases(out, "fit")
    if not fit:
        return None
    return fit[0]["args"][1] if len(fit[0]["args"]) > 1 else None


def boundaries(case):
    """Pair indices (i means the pair (i, i+1)) that straddle a series boundary in the
    concatenated stacked data."""
    w = case["args"]["window_size"]
    ends = np.cumsum([length - w + 1 for length in case["data"]["lengths"]])
    return [int(e) - 1 for e in ends[:-1]]
