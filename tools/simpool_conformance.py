#!/venv/bin/python
"""Conformance of SimPool with the real multiprocessing.Pool (fork): the same small scripts are
run against both and their observable outcomes compared.  Exit 0 iff all scenarios agree.

This validates the *model* the simulation rests on; it is not a property check."""
import multiprocessing
import multiprocessing.pool
import os
import sys

sys.path.insert(0, os.path.dirname(os.path.dirname(os.path.abspath(__file__))))
from ticcsim import core, simpool          # noqa: E402


class _Sim:
    def __init__(self, seed):
        self.pools, self.events, self.finish_order = [], [], []
        self.chooser = core.Chooser(seed=seed, bias="uniform")
        self.eager_pickle_p, self.cold_cache, self.direct = 0.5, False, False
        self.in_worker = self.deadlocks = 0

    def log(self, kind, **kw):
        self.events.append(kind)

    def probe(self, *a, **k):
        pass

    def clear_caches(self):
        pass


def ok(x):
    return x * 2


def boom(x):
    raise ValueError(f"boom {x}")


def unpicklable_result(x):
    return lambda: x


class Custom(Exception):
    pass


def custom(x):
    raise Custom("custom failure")


def outcome(fn):
    try:
        return ("ok", fn())
    except BaseException as e:      # noqa: BLE001
        return ("raise", type(e).__name__, str(e)[:60])


def scenarios(make_pool, real):
    res = {}
    p = make_pool(2)
    res["value"] = outcome(lambda: p.apply_async(ok, (21,)).get(10))
    res["exception"] = outcome(lambda: p.apply_async(boom, (3,)).get(10))
    res["custom_exception"] = outcome(lambda: p.apply_async(custom, (3,)).get(10))
    res["kwds"] = outcome(lambda: p.apply_async(ok, (), {"x": 4}).get(10))
    got = []
    r = p.apply_async(ok, (5,), callback=got.append)
    r.get(10)
    r.wait(10)
    res["callback"] = list(got)
    errs = []
    r = p.apply_async(boom, (6,), error_callback=lambda e: errs.append(type(e).__name__))
    res["error_callback_get"] = outcome(lambda: r.get(10))
    res["error_callback"] = list(errs)
    res["successful_after_ok"] = outcome(lambda: (lambda a: (a.get(10), a.successful())[1])(p.apply_async(ok, (1,))))
    res["successful_after_fail"] = outcome(lambda: (lambda a: (a.wait(10), a.successful())[1])(p.apply_async(boom, (1,))))
    res["unpicklable_result"] = outcome(lambda: p.apply_async(unpicklable_result, (1,)).get(10))[:2]
    res["unpicklable_argument"] = outcome(lambda: p.apply_async(ok, (lambda: 1,)).get(10))[:1]
    res["map"] = outcome(lambda: p.map(ok, [1, 2, 3]))
    res["map_exception"] = outcome(lambda: p.map(boom, [1, 2]))[:2]
    res["starmap"] = outcome(lambda: p.starmap(ok, [(1,), (2,)]))
    res["imap"] = outcome(lambda: list(p.imap(ok, [3, 4])))
    res["imap_unordered_sorted"] = outcome(lambda: sorted(p.imap_unordered(ok, [3, 4, 5])))
    res["join_before_close"] = outcome(lambda: p.join())
    p.close()
    res["apply_after_close"] = outcome(lambda: p.apply_async(ok, (1,)))[:2]
    res["join_after_close"] = outcome(lambda: p.join())
    # terminate
    p = make_pool(1)
    p.terminate()
    res["apply_after_terminate"] = outcome(lambda: p.apply_async(ok, (1,)))[:2]
    res["join_after_terminate"] = outcome(lambda: p.join())
    # context manager terminates
    with make_pool(2) as p2:
        res["context_value"] = outcome(lambda: p2.apply_async(ok, (2,)).get(10))
    res["apply_after_context"] = outcome(lambda: p2.apply_async(ok, (1,)))[:2]
    res["bad_processes"] = outcome(lambda: make_pool(0))[:2]
    # successful() on a task that cannot have finished: its worker is busy with an earlier, slow task
    p = make_pool(1)
    import time
    first = p.apply_async(time.sleep if real else ok, (0.5,))
    second = p.apply_async(ok, (2,))
    if real:
        res["successful_when_not_ready"] = outcome(lambda: second.successful())[:2]
        res["get_timeout"] = outcome(lambda: second.get(0.01))[:2]
    else:
        # the simulator: nothing has been scheduled yet, the task is certainly unfinished
        res["successful_when_not_ready"] = outcome(lambda: second.successful())[:2]
        p.sim.chooser = core.Chooser(recorded=[0, 0, 0, 0, 0, 0, 0, 0, 0, 0, 0, 0])   # polls see no progress at first
        res["get_timeout"] = outcome(lambda: second.get(0.01))[:2]
    first.get(10)
    second.get(10)
    p.close()
    p.join()
    return res


def main():
    sim = _Sim(7)
    real = scenarios(lambda n: multiprocessing.Pool(n), True)
    simr = scenarios(lambda n: simpool.SimPool(sim, n), False)
    bad = 0
    for k in real:
        same = real[k] == simr[k]
        print(f"{'ok  ' if same else 'DIFF'} {k:28s} real={real[k]!r:60.60} sim={simr[k]!r:60.60}")
        bad += 0 if same else 1
    print(f"{len(real) - bad}/{len(real)} scenarios agree")
    return 1 if bad else 0


if __name__ == "__main__":
    sys.exit(main())
