#!/bin/bash
# every check against each independent behaviour-preserving refactor (refactors/agent_*/patch.diff): must stay silent
cd /verif
ALL=$(python3-vt -c "import json;print(' '.join(c['property_id'] for c in json.load(open('MANIFEST.json'))['checks']))")
for d in ${@:-refactors/agent_*}; do
  echo "=== $d"
  tools/mutant.sh $d/patch.diff $ALL 2>&1 | grep -E "VIOLATION|oracle=|HARNESS|UNFINISHED|cases,|PATCH FAILED" | cut -c1-260
done
