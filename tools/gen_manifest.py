#!/venv/bin/python
"""Writes /verif/MANIFEST.json from the table below (single source of truth)."""
import json
import os

ROOT = os.path.dirname(os.path.dirname(os.path.abspath(__file__)))

SIM = "deterministic simulation: seeded swarm of front-end runs under SimPool with recorded phase history"
TRUST = ("reference model in ticcsim/reference.py (independent, no solver); NumPy/LAPACK; SimPool as a model of "
         "multiprocessing.Pool; BLAS pinned to one thread; a clean batch is evidence, not proof")

CHECKS = {
    "C03": ("exploration", "5/C03", SIM + "; per-phase invariant on every MRF + scale shard",
            "Every MRF after every optimise phase and in every result of a seeded swarm (incl. per-sensor scales 1e-6..1e6 "
            "i.e. variances 1e-12..1e12, constant sensors, duplicated rows, one-window clusters, determinant shard) is "
            "checked finite/symmetric/Cholesky-factorable with a finite stored log-determinant; eps>0 runs are compared "
            "entry-wise with the raw task result captured at the pool seam. Sampling, not proof: NW<=40."),
    "C04": ("exploration", "5/C04", SIM + "; post-run oracle on result vs. inputs (configuration search)",
            "Label counts, exact margins for both parities of W, label range/type, MRF count/shape, echoes, and per-series "
            "interior labels equal to the matching slice of the last recorded labelling, over single and joint runs with "
            "1..6 series of unequal length. Nothing here depends on schedule or faults; the search is over configurations."),
    "C05": ("exploration", "5/C05", SIM + "; lockstep refinement of every likelihood table and result likelihood against a reference density",
            "Every likelihood table of every round and every likelihood in the result is compared with an independent "
            "slogdet-based Gaussian log-density under the model recorded in that round, with derived tolerances; a "
            "determinant shard (NW up to 60, log-determinants down to about -1650) requires finite values; covariance floors "
            "0..0.3; a quarter as many cases again in JIT-compiled worker interpreters. NW in the hundreds is not reached."),
    "C06": ("exploration", "5/C06", SIM + "; post-run accounting oracle on result + recorded final model",
            "Cost/likelihood accounting and list/aggregate consistency on every completed run of a swarm biased towards "
            "empty-cluster endings, limit-stopped and converged runs, scalar and per-pair beta, both front ends; the "
            "joint-boundary pricing deviation is attributed to the known finding only on an exact match of its model."),
    "C07": ("exploration", "5/C07", SIM + "; seam observation of the switching cost reaching the labelling step + boundary-free reference optimum",
            "For joint runs of 1..6 unequal series: stacked array at the main-loop seam vs reference stacking, the beta "
            "actually reaching the labelling step in every round, the mask helper's output for the run's lengths, and "
            "boundary-free optimality of the returned labelling from the recorded last cost table."),
    "C09": ("exploration", "5/C09", SIM + "; recorded per-phase history checked after the run against reference Viterbi",
            "Round count, phase order, state hand-over, stopping rule, returned = last round, and optimality of every "
            "round's labelling for that round's recorded cost table (O(TK^2) reference, brute force on tiny tables), over "
            "runs with limits 1..50, repopulation events and vector beta."),
    "C12": ("exploration", "5/C12", SIM + "; lockstep refinement at the statistics phase and at the pool seam",
            "Per round and cluster: recorded mean/covariance vs explicit-sum reference statistics of exactly the windows "
            "labelled k (both estimators, after repopulation too); task arguments captured inside SimPool workers are "
            "bit-compared with the cluster's covariance and the user's lambda/W/N; each stored MRF is traced to its own task."),
    "C14": ("exploration", "5/C14", "deterministic simulation: one seeded call under many SimPool schedules / worker counts / pickling moments / cache temperatures / process histories, bit-compared; real-pool conformance runs",
            "Each base seed is executed as reference (FIFO, 1 worker, fresh history), repeated, then under random simulated "
            "schedules (completion order, worker assignment, lazy/eager pickling, cold/warm worker caches, per-worker RNG "
            "copies), worker counts 1..8 with the switch off/on, and after random process histories (incl. failing "
            "calls, and hyper-parameter sweeps over the same data); results must be bit-identical. A second group of "
            "long-lived interpreters runs the same seeds' reference call after other earlier calls (cross-process-history "
            "comparison by the parent). A few runs use the real fork pool with seeded delays (observation)."),
    "C16": ("exploration", "5/C16", SIM + "; post-run oracle recomputing BIC from the recorded final model",
            "BIC recomputed from the definition (label-run parameter count, slogdet, trace term with the covariance each "
            "cluster was last fitted to) on every completed run incl. determinant shard; derived tolerance, finite whenever "
            "the MRFs are SPD."),
    "C17": ("exploration", "5/C17", SIM + "; post-run oracle recomputing the index from data and labels, executable deviation model for the known finding",
            "For converged runs with non-empty clusters the index is recomputed with the column-wise centroid; the tree's "
            "scalar-centre behaviour is a recorded known finding matched by an executable deviation model, so any other "
            "discrepancy (degrees of freedom, dispersion) is still a violation."),

    "C08": ("exploration", "5/C08", "deterministic simulation: Hypothesis rule-based state machine over real model states with the member draw behind a simulator seam + every repopulation event of traced swarm runs, judged by predicates",
            "Adversarial size vectors (boundaries 0,1,2,m-1,m,2m-1,2m,3m-1,3m,3m+2), spread orderings with ties, any m-subset "
            "as the random draw, repeated application; predicates (not a re-implementation) for conservation, refill size, "
            "donor eligibility/retention, move direction, bystanders, donor order, input immutability and raise-iff-capacity-"
            "insufficient; the same predicates on every repopulation event of seeded swarm runs."),
    "C13": ("exploration", "5/C13", "deterministic simulation: Hypothesis rule-based state machine over the container API and phase functions keeping every state ever produced + the same invariant on every phase boundary of traced runs",
            "Operation histories (assign labels, shallow/deep copy, repopulate, update statistics, optimise via direct-mode "
            "SimPool, relabel) over real ModelState objects; after every operation: partition consistency of the new state, "
            "no earlier state changed at any distance, deep copies share no mutable object (identity/memory walk). The same "
            "checks at every phase boundary of seeded swarm runs, incl. a second look at every state when the call is over."),
    "C15": ("exploration", "5/C15", "deterministic simulation: same seeded runs in three execution modes fixed at interpreter start (JIT, JIT disabled, injected numba import failure) compared round by round; simulated prange schedules; observed JIT thread-count sweep",
            "The same seeds run in JIT, NUMBA_DISABLE_JIT and numba-absent worker interpreters; per-round labels, costs and "
            "likelihood tables plus two kernel-level calls are compared across modes with derived rounding tolerances (label "
            "ties excused only when both labellings are optimal for both tables). Interpreted modes: seeded permutation of the "
            "parallel loop. JIT: thread counts 1,2,4,8,16 bit-compared (observation, not scheduling)."),
    "C18": ("exploration", "5/C18", "deterministic simulation: paired replays of one seeded run under equivalent parameter forms, bit-compared; counterfactual seam for the known summation-order finding",
            "Scalar vs constant-matrix lambda, scalar vs constant-vector beta, and int/float/NumPy-scalar forms of each scalar "
            "hyper-parameter (only where the type represents the value exactly), end to end and at the optimiser entry point; "
            "bitwise comparison of whole results; the entry point also with other rho values and an adaptive-rho callback. The known "
            "summation-order finding is attributed per case by a counterfactual seam, or - when a refactor bypasses that seam - "
            "only if its precondition holds and the results agree to 1e-9. Configuration-only: simulation contributes comparability."),
    "C19": ("fault_enumeration", "5/C19", "deterministic simulation with fault injection: byte snapshots of caller-owned objects around every simulated call incl. calls aborted at enumerated fault points; SimPool direct mode exposes worker-side writes",
            "Series, their list, matrix lambda and vector beta in C/Fortran/strided/read-only layouts are snapshotted "
            "(bytes, shape, strides, dtype, flags) around successful calls, calls aborted by faults injected at points "
            "enumerated from the clean run, direct-mode runs (no pickling barrier), a few real-pool runs, and direct calls "
            "of the optimiser entry point / labelling step with read-only copies of arrays recorded in the run."),
    "C20": ("fault_enumeration", "5/C20", "deterministic simulation with fault injection: a fault at every (round, cluster) task and every phase boundary of a base run in turn, under random SimPool schedules and the real fork pool, followed by a clean call",
            "For each sampled base configuration the clean traced run defines the finite set of fault points (task "
            "before/after/unpicklable result, phase before/after); each is exercised (all in thorough, a seeded third in "
            "quick) under a random simulated schedule and a subset under the real pool: the call must raise the injected "
            "error, return nothing, not deadlock, release the pool at the instant it raises (real pool: no live child), "
            "and a following clean call must be bit-identical to the same call made before. Plus double faults, no-donor, "
            "partial-donor-shortage and wrong-front-end failures, and a real-pool burst (calls in a row whose tasks all fail at "
            "once, each under an alarm) that exposes clean-up code racing with the pool's own hand-over of tasks."),
}

PENDING = {}

NA = {
    "C01": "pure function of (cost table, beta): no schedule, fault, RNG draw or history enters it; quantifier ranges over tables no run produces; its run-level consequence (each round's labelling optimal for that round's table) is checked under C09",
    "C02": "pure function of (S, lambda, W, N, rho, callback); needs a KKT certificate over generated inputs, not schedule/fault search; most of its quantified space (rho != 1, callbacks) is unreachable from the front ends",
    "C10": "stacking/splitting helpers are pure functions of their array arguments (bit-exactness for NaN payloads, -0.0, inf; all (T,W,N)); the run-level shadow is checked under C04/C07",
    "C11": "finite pure index maps; the property asks for complete enumeration (exhaustive testing / model checking), not seeded sampling; their memoisation is C14's subject",
}


def main(pending=None):
    checks = []
    for pid, (level, ref, technique, text) in sorted(CHECKS.items()):
        checks.append(dict(
            property_id=pid,
            quick_cmd=f"./check {pid} --tier quick",
            thorough_cmd=f"./check {pid} --tier thorough",
            evidence_file=f"/verif/evidence/{pid}.json",
            replay_cmd_template="./check --replay {path}",
            engine="ticcsim",
            level_claimed=dict(category=level, text=text, design_ref=f"DESIGN.md section {ref}"),
            level_note=TRUST,
            technique=technique,
        ))
    na = [dict(property_id=k, reason=v) for k, v in sorted(NA.items())]
    for k, v in sorted(PENDING.items()):
        na.append(dict(property_id=k, reason=v))
    man = dict(
        version=1,
        setup_cmd="/venv/bin/python -c \"import numpy, sklearn, numba, hypothesis, sys; sys.path.insert(0,'/repo/src'); import fast_ticc\"",
        hooks=dict(
            guard="FAST_TICC_VERIF",
            enable="none needed: every seam is a late-bound module attribute patched by identity from /verif (see DESIGN.md 3.1); the guard variable is reserved and unused, /repo contains no hook",
            baseline_off_cmd="cd /repo && /venv/bin/python -m pytest -ra -q -p no:cacheprovider --timeout=900 --continue-on-collection-errors",
            source_commits=[],
            add_only=True,
        ),
        engines=[dict(name="ticcsim", path="/verif/ticcsim", serves_properties=sorted(CHECKS),
                      kind_free_text="deterministic simulator for fast_ticc: SimPool (seeded scheduler model of "
                                     "multiprocessing.Pool), RNG seams, phase-recording wrappers, fault injector, "
                                     "reference model, replay/minimisation, batch runner over worker interpreters")],
        checks=checks,
        not_applicable=na,
        notes="See DESIGN.md. Known findings: KNOWN_FINDINGS.txt. Fixes to /repo are 'fix:' commits listed there as fixed:.",
    )
    with open(os.path.join(ROOT, "MANIFEST.json"), "w") as f:
        json.dump(man, f, indent=1)
    print("wrote MANIFEST.json with", len(checks), "checks,", len(na), "not applicable")


if __name__ == "__main__":
    main()
