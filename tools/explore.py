"""Dev tool: apply every post-run oracle to N random swarm runs and tabulate which keys fire."""
import os, sys, collections, json, time
os.environ["TICCSIM_MODE"] = os.environ.get("TICCSIM_MODE", "nojit")
if os.environ["TICCSIM_MODE"] != "jit":
    os.environ["NUMBA_DISABLE_JIT"] = "1"
os.environ["OPENBLAS_NUM_THREADS"] = "1"; os.environ["OMP_NUM_THREADS"] = "1"; os.environ["PYTHONHASHSEED"] = "0"
sys.path.insert(0, os.path.dirname(os.path.dirname(os.path.abspath(__file__))))
from concurrent.futures import ProcessPoolExecutor
import multiprocessing

def work(args):
    lo, hi, profile = args
    from ticcsim import core, workload, runner, oracles, trace
    from ticcsim.props.base import Record
    core.load_fast_ticc()
    res = []
    for s in range(lo, hi):
        case = workload.gen_case("EXP", s, profile)
        out = runner.execute(case)
        rec = Record()
        keys = []
        for name in ("c03", "c04", "c05", "c06", "c07", "c09", "c12", "c13_run", "c16", "c17"):
            try:
                for k, d in getattr(oracles, name)(out, rec=rec) if name != "c04" else oracles.c04(out):
                    keys.append((k, d))
            except Exception as e:
                import traceback
                keys.append(("HARNESS:" + name, traceback.format_exc()[-400:]))
        res.append((s, out.ok, out.exc, keys, dict(rec["skips"]), workload.brief(case)))
    return res

if __name__ == "__main__":
    n = int(sys.argv[1]); start = int(sys.argv[2]) if len(sys.argv) > 2 else 0
    profile = json.loads(sys.argv[3]) if len(sys.argv) > 3 else {}
    chunks = [(start + i * n // 16, start + (i + 1) * n // 16, profile) for i in range(16)]
    t0 = time.time()
    with ProcessPoolExecutor(16, mp_context=multiprocessing.get_context("fork")) as ex:
        allres = [r for part in ex.map(work, chunks) for r in part]
    cnt = collections.Counter(); ex1 = {}; skips = collections.Counter(); excs = collections.Counter()
    for s, ok, exc, keys, sk, b in allres:
        if not ok: excs[exc[0] + ":" + exc[1][:60]] += 1
        for k, d in keys:
            cnt[k] += 1; ex1.setdefault(k, (s, d, b))
        for k, v in sk.items(): skips[k] += v
    print("runs", len(allres), "ok", sum(1 for r in allres if r[1]), "wall %.1f" % (time.time() - t0))
    print("exceptions:", dict(excs))
    print("skips:", dict(skips))
    for k, v in cnt.most_common():
        s, d, b = ex1[k]
        print(f"{v:5d} {k}  e.g. seed {s}: {d[:300]}\n        {json.dumps(b, default=str)[:400]}")
