#!/bin/bash
# usage: tools/eval_seeded.sh <seeded id> <check id>...
# Confirms a seeded change (demo fails with it / passes without; suite passes with it), then runs the given checks against it.
set -u
ID="$1"; shift
S=/verif/seeded/$ID
D=$(mktemp -d /tmp/ev_XXXXXX)
mkdir -p "$D/orig" "$D/mut"
(cd /repo && git archive HEAD) | tar -x -C "$D/orig"
(cd /repo && git archive HEAD) | tar -x -C "$D/mut"
(cd "$D/mut" && patch -p1 -s < "$S/patch.diff") || { echo "PATCH FAILED"; rm -rf "$D"; exit 3; }
if [ -z "${SKIP_CONFIRM:-}" ]; then
{
echo "== demo on unmodified tree (expect exit 0)"
(cd "$D" && PYTHONPATH="$D/orig/src" timeout 300 /venv/bin/python "$S/demo.py" > "$D/demo_orig.log" 2>&1; echo "exit=$?")
echo "== demo with change (expect exit 1)"
(cd "$D" && PYTHONPATH="$D/mut/src" timeout 300 /venv/bin/python "$S/demo.py" > "$D/demo_mut.log" 2>&1; echo "exit=$?"; grep -v WARNING "$D/demo_mut.log" | tail -4 | cut -c1-300)
echo "== test suite with change (expect 31 passed)"
(cd "$D/mut" && PYTHONPATH="$D/mut/src" timeout 1500 /venv/bin/python -m pytest -q -p no:cacheprovider --timeout=900 2>&1 | tail -2)
} 2>&1 | tee "$S/eval.txt"
fi
if [ -n "${ONLY_CONFIRM:-}" ]; then rm -rf "$D"; exit 0; fi
echo "== checks against the change" | tee -a "$S/eval.txt"
export TICCSIM_REPO_SRC="$D/mut/src" TICCSIM_OUT="$D/out"
mkdir -p "$D/out"
cd /verif
for c in "$@"; do
  ./check "$c" --tier "${TIER:-quick}" 2>&1 | grep -v WARNING | cut -c1-500 | grep -E "VIOLATION|HARNESS|oracle=|cases," | tee -a "$S/eval.txt"
done
if [ -n "${KEEP:-}" ]; then mkdir -p "$S/replays"; cp "$D"/out/replays/*.json "$S/replays/" 2>/dev/null; fi
rm -rf "$D"
