#!/bin/bash
# usage: tools/mutant.sh <patch file | -R commit> <check id>...   Runs checks against a scratch copy of /repo/src with the patch applied.
set -u
PATCH="$1"; shift
case "$PATCH" in -R) ;; /*) ;; *) PATCH="$PWD/$PATCH";; esac
D=$(mktemp -d /tmp/mut_XXXXXX)
mkdir -p "$D/repo"
cp -r /repo/src "$D/repo/src"
if [ "$PATCH" = "-R" ]; then
  C="$1"; shift
  (cd /repo && git show "$C" -- src) | (cd "$D/repo" && patch -R -p1 -s) || { echo "PATCH FAILED"; rm -rf "$D"; exit 3; }
else
  (cd "$D/repo" && patch -p1 -s < "$PATCH") || { echo "PATCH FAILED"; rm -rf "$D"; exit 3; }
fi
find "$D/repo" -name __pycache__ -prune -exec rm -rf {} \;
export TICCSIM_REPO_SRC="$D/repo/src" TICCSIM_OUT="$D/out"
mkdir -p "$D/out"
cd /verif
rc=0
for c in "$@"; do
  ./check "$c" --tier "${TIER:-quick}" 2>&1 | grep -v WARNING | cut -c1-400 | grep -E "VIOLATION|KNOWN|HARNESS|oracle=|cases," 
done
if [ -n "${KEEP:-}" ]; then mkdir -p "$KEEP"; cp "$D"/out/replays/*.json "$KEEP"/ 2>/dev/null; fi
rm -rf "$D"
