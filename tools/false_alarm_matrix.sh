#!/bin/bash
# Runs checks against behaviour-preserving refactors; every line must report 0 violation(s) and no HARNESS.
cd /verif
run() { r=$1; shift; echo "=== $r"; tools/mutant.sh refactors/$r.diff "$@" 2>&1 | grep -E "VIOLATION|oracle=|HARNESS|cases,|PATCH FAILED" | cut -c1-260; }
run R1_pool_context_manager C20 C14 C09 C19
run R2_gather_reverse_store_by_index C14 C12 C13 C20 C09
run R3_from_imports C14 C20 C08 C12 C19 C13
run R4_submit_reverse C14 C12 C13 C20
run R5_cholesky_logdet C05 C03 C16 C06 C09 C15 C13
run R7_serial_pool_when_disabled C14 C20 C19 C12 C09
run R8_explicit_covariance C12 C03 C16 C17 C14
run R9_tie_breaking C09 C07 C06 C15 C19 C04
run R10_deepcopy_repop_int_labels C08 C13 C04 C09 C12 C14
echo "=== R11_rename_phase_function (expected: HARNESS-INCOMPATIBLE lines, never a VIOLATION)"
tools/mutant.sh refactors/R11_rename_phase_function.diff C09 2>&1 | grep -E "VIOLATION|cases," | cut -c1-200
run R12_starmap_gather C12 C14 C20 C13 C19 C09
