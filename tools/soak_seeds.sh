#!/bin/bash
# quick tier of every check under several VERIF_SEED values: hunts for rare false alarms on the unchanged tree
cd "$(dirname "$0")/.."
for s in "$@"; do
  echo "##### VERIF_SEED=$s"
  for p in $(python3-vt -c "import json;print(' '.join(c['property_id'] for c in json.load(open('MANIFEST.json'))['checks']))"); do
    VERIF_SEED=$s ./check $p --tier quick 2>&1 | grep -v WARNING | cut -c1-300 | grep -E "VIOLATION|HARNESS|UNFINISHED|oracle=|cases,"
  done
done
