#!/bin/bash
# thorough tier of every registered check, one after the other (hours); prints one summary line per check
cd "$(dirname "$0")/.."
for p in ${@:-$(python3-vt -c "import json;print(' '.join(c['property_id'] for c in json.load(open('MANIFEST.json'))['checks']))")}; do
  ./check $p --tier thorough 2>&1 | grep -v WARNING | cut -c1-400 | grep -E "VIOLATION|HARNESS|UNFINISHED|KNOWN|oracle=|cases,"
done
./check selftest --tier thorough 2>&1 | grep -v WARNING | cut -c1-300 | tail -3
