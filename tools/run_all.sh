#!/bin/bash
# run every registered check once (tier from $1, default quick) and validate evidence
cd /verif
TIER=${1:-quick}
for p in $(python3-vt -c "import json;print(' '.join(c['property_id'] for c in json.load(open('MANIFEST.json'))['checks']))"); do
  /usr/bin/time -f "$p wall=%es" ./check $p --tier $TIER 2>&1 | grep -v WARNING | cut -c1-260 | grep -E "VIOLATION|KNOWN|HARNESS|cases,|wall="
  echo "  exit=${PIPESTATUS[0]}"
done
python3-vt - <<'P'
import json,jsonschema,glob
sch=json.load(open('/root/.vp/EVIDENCE.schema.json'))
for f in sorted(glob.glob('evidence/*.json')):
    try:
        jsonschema.validate(json.load(open(f)), sch)
    except Exception as e:
        print("EVIDENCE INVALID", f, str(e)[:200])
print("evidence validated")
P
